// Package enc implements the tagged encoding used on the Go/TLC boundary (DESIGN.md §3.2).
//
// TLC's Json module cannot read null, large integers, decimals or non-ASCII strings, and does not
// distinguish [] from {}. Every value crossing the boundary is therefore explicitly tagged:
// numbers are sign + decimal digit sequence + scale, strings are percent-encoded ASCII with an
// explicit code-point count and the facts (patterns matched, formats satisfied) TLA+ cannot compute.
package enc

import (
	"encoding/json"
	"fmt"
	"math"
	"net/url"
	"reflect"
	"regexp"
	"sort"
	"strconv"
	"strings"
	"unicode/utf8"
	"unsafe"

	"github.com/go-openapi/strfmt"
)

// M is a JSON object.
type M = map[string]interface{}

// Ctx carries the facts context of one event: the patterns and formats of its schema.
type Ctx struct {
	Pats    []string
	res     []*regexp.Regexp
	Fmts    []string // formats mentioned by the schema
	Reg     strfmt.Registry
	CaseIDs bool
	RefMap  func(ref string) string // optional: maps a $ref to the name of its definition in the encoded root
}

// PatID interns a pattern and returns its 1-based id. Invalid patterns get a nil matcher.
func (c *Ctx) PatID(p string) int {
	for i, q := range c.Pats {
		if q == p {
			return i + 1
		}
	}
	c.Pats = append(c.Pats, p)
	re, err := regexp.Compile(p) // independent of validate's cache
	if err != nil {
		re = nil
	}
	c.res = append(c.res, re)
	return len(c.Pats)
}

// PatValid tells whether pattern id compiles.
func (c *Ctx) PatValid(id int) bool { return c.res[id-1] != nil }

// AddFmt records a format name used by the schema.
func (c *Ctx) AddFmt(f string) {
	for _, g := range c.Fmts {
		if g == f {
			return
		}
	}
	c.Fmts = append(c.Fmts, f)
}

// Known returns the formats of the schema known to the registry.
func (c *Ctx) Known() []interface{} {
	out := []interface{}{}
	if c.Reg == nil {
		return out
	}
	for _, f := range c.Fmts {
		if c.Reg.ContainsName(f) {
			out = append(out, f)
		}
	}
	return out
}

const safe = "abcdefghijklmnopqrstuvwxyzABCDEFGHIJKLMNOPQRSTUVWXYZ0123456789_-"

// Pct percent-encodes every byte outside [A-Za-z0-9_-] (injective, ASCII only).
func Pct(s string) string {
	var b strings.Builder
	for i := 0; i < len(s); i++ {
		ch := s[i]
		if strings.IndexByte(safe, ch) >= 0 {
			b.WriteByte(ch)
		} else {
			fmt.Fprintf(&b, "%%%02X", ch)
		}
	}
	return b.String()
}

// Unpct reverses Pct.
func Unpct(s string) string {
	var b strings.Builder
	for i := 0; i < len(s); i++ {
		if s[i] == '%' && i+2 < len(s) {
			v, err := strconv.ParseUint(s[i+1:i+3], 16, 8)
			if err == nil {
				b.WriteByte(byte(v))
				i += 2
				continue
			}
		}
		b.WriteByte(s[i])
	}
	return b.String()
}

// NumFromDecimal encodes a decimal literal such as "-12.50" or "1e3" exactly.
func NumFromDecimal(lit string) M {
	s := strings.TrimSpace(lit)
	sign := 1
	if strings.HasPrefix(s, "-") {
		sign = -1
		s = s[1:]
	} else if strings.HasPrefix(s, "+") {
		s = s[1:]
	}
	exp := 0
	if i := strings.IndexAny(s, "eE"); i >= 0 {
		e, _ := strconv.Atoi(s[i+1:])
		exp = e
		s = s[:i]
	}
	intPart, frac := s, ""
	if i := strings.IndexByte(s, '.'); i >= 0 {
		intPart, frac = s[:i], s[i+1:]
	}
	digits := intPart + frac
	scale := len(frac) - exp // value = digits * 10^-scale
	// strip leading zeros
	digits = strings.TrimLeft(digits, "0")
	if digits == "" {
		return M{"t": "num", "s": 0, "d": []interface{}{}, "f": 0}
	}
	// strip trailing zeros while scale > 0
	for scale > 0 && strings.HasSuffix(digits, "0") {
		digits = digits[:len(digits)-1]
		scale--
	}
	if scale < 0 {
		digits += strings.Repeat("0", -scale)
		scale = 0
	}
	d := make([]interface{}, len(digits))
	for i := range digits {
		d[i] = int(digits[i] - '0')
	}
	return M{"t": "num", "s": sign, "d": d, "f": scale}
}

// NumFromFloat encodes a float64 by its shortest round-trip decimal representation.
func NumFromFloat(x float64) M {
	if math.IsNaN(x) || math.IsInf(x, 0) {
		return M{"t": "num", "s": 0, "d": []interface{}{}, "f": 0, "nan": true}
	}
	return NumFromDecimal(strconv.FormatFloat(x, 'f', -1, 64))
}

// Str encodes a string with its facts.
func (c *Ctx) Str(s string) M {
	m := []interface{}{}
	for i, re := range c.res {
		if re != nil && re.MatchString(s) {
			m = append(m, i+1)
		}
	}
	fm := []interface{}{}
	if c.Reg != nil {
		for _, f := range c.Fmts {
			if c.Reg.ContainsName(f) && c.Reg.Validates(f, s) {
				fm = append(fm, f)
			}
		}
	}
	return M{"t": "str", "x": Pct(s), "n": utf8.RuneCountInString(s), "m": m, "fm": fm}
}

// Value encodes a JSON value (as produced by encoding/json into interface{}).
func (c *Ctx) Value(v interface{}) M {
	switch x := v.(type) {
	case nil:
		return M{"t": "null"}
	case bool:
		return M{"t": "bool", "b": x}
	case float64:
		return NumFromFloat(x)
	case int:
		return NumFromDecimal(strconv.Itoa(x))
	case int64:
		return NumFromDecimal(strconv.FormatInt(x, 10))
	case json.Number:
		return NumFromDecimal(string(x))
	case string:
		return c.Str(x)
	case []interface{}:
		out := make([]interface{}, len(x))
		for i := range x {
			out[i] = c.Value(x[i])
		}
		return M{"t": "arr", "v": out}
	case map[string]interface{}:
		ks := make([]string, 0, len(x))
		for k := range x {
			ks = append(ks, k)
		}
		sort.Strings(ks)
		kk := make([]interface{}, len(ks))
		vv := make([]interface{}, len(ks))
		for i, k := range ks {
			kk[i] = c.Str(k)
			vv[i] = c.Value(x[k])
		}
		return M{"t": "obj", "k": kk, "v": vv}
	}
	panic(fmt.Sprintf("enc: unsupported value %T", v))
}

// Collect registers the patterns and formats of a schema (generic JSON form) in the context.
func (c *Ctx) Collect(s interface{}) {
	switch x := s.(type) {
	case map[string]interface{}:
		if p, ok := x["pattern"].(string); ok {
			c.PatID(p)
		}
		if f, ok := x["format"].(string); ok {
			c.AddFmt(f)
		}
		if pp, ok := x["patternProperties"].(map[string]interface{}); ok {
			ks := sortedKeys(pp)
			for _, k := range ks {
				c.PatID(k)
			}
		}
		for _, k := range sortedKeys(x) {
			if k == "enum" || k == "default" || k == "example" {
				continue
			}
			c.Collect(x[k])
		}
	case []interface{}:
		for _, v := range x {
			c.Collect(v)
		}
	}
}

func sortedKeys(m map[string]interface{}) []string {
	ks := make([]string, 0, len(m))
	for k := range m {
		ks = append(ks, k)
	}
	sort.Strings(ks)
	return ks
}

func num(v interface{}) M {
	switch x := v.(type) {
	case float64:
		return NumFromFloat(x)
	case int:
		return NumFromDecimal(strconv.Itoa(x))
	case int64:
		return NumFromDecimal(strconv.FormatInt(x, 10))
	case json.Number:
		return NumFromDecimal(string(x))
	case string:
		return NumFromDecimal(x)
	}
	panic(fmt.Sprintf("enc: not a number %T", v))
}

func toInt(v interface{}) int {
	switch x := v.(type) {
	case float64:
		return int(x)
	case int:
		return x
	case int64:
		return int(x)
	case json.Number:
		f, _ := x.Float64()
		return int(f)
	}
	panic(fmt.Sprintf("enc: not an int %T", v))
}

// RefName maps a local reference to the name of its definition ("#/definitions/x" -> "x").
func RefName(ref string) string {
	const p = "#/definitions/"
	if strings.HasPrefix(ref, p) {
		name := ref[len(p):]
		if u, err := url.PathUnescape(name); err == nil {
			name = u
		}
		name = strings.ReplaceAll(strings.ReplaceAll(name, "~1", "/"), "~0", "~")
		return Pct(name)
	}
	return "!" + Pct(ref)
}

// Schema encodes a schema given in generic JSON form. Definitions of the root are encoded by Root.
func (c *Ctx) Schema(s map[string]interface{}) M {
	o := M{}
	has := []string{}
	put := func(k string, v interface{}) { o[k] = v; has = append(has, k) }
	if r, ok := s["$ref"].(string); ok {
		if c.RefMap != nil {
			put("ref", c.RefMap(r))
		} else {
			put("ref", RefName(r))
		}
		o["has"] = strs(has)
		return o
	}
	if t, ok := s["type"]; ok {
		switch x := t.(type) {
		case string:
			put("type", []interface{}{x})
		case []interface{}:
			put("type", x)
		case []string:
			put("type", strs(x))
		}
	}
	if e, ok := s["enum"].([]interface{}); ok {
		ev := make([]interface{}, len(e))
		for i := range e {
			ev[i] = c.Value(e[i])
		}
		put("enum", ev)
	}
	for _, k := range []string{"minimum", "maximum", "multipleOf"} {
		if v, ok := s[k]; ok {
			put(k, num(v))
		}
	}
	for _, k := range []string{"exclusiveMinimum", "exclusiveMaximum", "uniqueItems"} {
		if v, ok := s[k].(bool); ok {
			put(k, v)
		}
	}
	for _, k := range []string{"minLength", "maxLength", "minItems", "maxItems", "minProperties", "maxProperties"} {
		if v, ok := s[k]; ok {
			put(k, toInt(v))
		}
	}
	if p, ok := s["pattern"].(string); ok {
		put("pattern", c.PatID(p))
	}
	if f, ok := s["format"].(string); ok {
		put("format", f)
	}
	if it, ok := s["items"]; ok {
		switch x := it.(type) {
		case map[string]interface{}:
			put("items", c.Schema(x))
		case []interface{}:
			t := make([]interface{}, len(x))
			for i := range x {
				t[i] = c.Schema(x[i].(map[string]interface{}))
			}
			put("tuple", t)
		}
	}
	if a, ok := s["additionalItems"]; ok {
		switch x := a.(type) {
		case bool:
			put("addItemsB", x)
		case map[string]interface{}:
			put("addItemsS", c.Schema(x))
		}
	}
	if p, ok := s["properties"].(map[string]interface{}); ok {
		ks := sortedKeys(p)
		pk := make([]interface{}, len(ks))
		pv := make([]interface{}, len(ks))
		for i, k := range ks {
			pk[i] = Pct(k)
			pv[i] = c.Schema(p[k].(map[string]interface{}))
		}
		put("pk", pk)
		o["pv"] = pv
	}
	if p, ok := s["patternProperties"].(map[string]interface{}); ok {
		ks := sortedKeys(p)
		pk := make([]interface{}, len(ks))
		pv := make([]interface{}, len(ks))
		for i, k := range ks {
			pk[i] = c.PatID(k)
			pv[i] = c.Schema(p[k].(map[string]interface{}))
		}
		put("ppk", pk)
		o["ppv"] = pv
	}
	if a, ok := s["additionalProperties"]; ok {
		switch x := a.(type) {
		case bool:
			put("addPropsB", x)
		case map[string]interface{}:
			put("addPropsS", c.Schema(x))
		}
	}
	if r, ok := s["required"].([]interface{}); ok {
		rr := make([]interface{}, len(r))
		for i := range r {
			rr[i] = Pct(r[i].(string))
		}
		put("required", rr)
	}
	if d, ok := s["dependencies"].(map[string]interface{}); ok {
		ks := sortedKeys(d)
		dk := make([]interface{}, len(ks))
		dv := make([]interface{}, len(ks))
		for i, k := range ks {
			dk[i] = Pct(k)
			switch x := d[k].(type) {
			case []interface{}:
				pp := make([]interface{}, len(x))
				for j := range x {
					pp[j] = Pct(x[j].(string))
				}
				dv[i] = M{"p": pp}
			case map[string]interface{}:
				dv[i] = M{"s": c.Schema(x)}
			}
		}
		put("depk", dk)
		o["depv"] = dv
	}
	for _, k := range []string{"allOf", "anyOf", "oneOf"} {
		if a, ok := s[k].([]interface{}); ok {
			t := make([]interface{}, len(a))
			for i := range a {
				t[i] = c.Schema(a[i].(map[string]interface{}))
			}
			put(k, t)
		}
	}
	if n, ok := s["not"].(map[string]interface{}); ok {
		put("not", c.Schema(n))
	}
	if d, ok := s["default"]; ok {
		put("default", c.Value(d))
	}
	o["has"] = strs(has)
	return o
}

// Root encodes a root schema together with its definitions ("dk"/"dv").
func (c *Ctx) Root(s map[string]interface{}) M {
	o := c.Schema(s)
	dk := []interface{}{}
	dv := []interface{}{}
	if defs, ok := s["definitions"].(map[string]interface{}); ok {
		for _, k := range sortedKeys(defs) {
			dk = append(dk, Pct(k))
			dv = append(dv, c.Schema(defs[k].(map[string]interface{})))
		}
	}
	o["dk"] = dk
	o["dv"] = dv
	return o
}

func strs(a []string) []interface{} {
	out := make([]interface{}, len(a))
	for i := range a {
		out[i] = a[i]
	}
	return out
}

// PtrOf returns the address held by a pointer value.
func PtrOf(p interface{}) unsafe.Pointer { return reflect.ValueOf(p).UnsafePointer() }
