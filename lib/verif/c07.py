"""C07 - spec validation never panics on a document that loads."""
from . import common, specfam, poolsfam


def run(tier, seed):
    check = common.Check("C07", tier, seed, "exploration")
    vh = common.build_vh()
    quick = tier == "quick"
    # the phase machine itself (design level): every run reaches "return" with two results, in both modes
    wd = common.workdir("C07-mc")
    r = common.tlc_or_inconclusive(wd, "SpecValidator", open(common.SPEC + "/MC_SpecValidator.cfg").read(), timeout=1800, workers=8, heap="6g")
    if r["violated"]:
        raise common.Inconclusive("SpecValidator.tla violates %s (spec bug)" % r["violated"])
    check.add_tlc(r)
    args = ["-seed", seed, "-bases", 4 if quick else 0, "-edits", 160 if quick else 300, "-double", 0.15]
    fails = specfam.run_spec(check, vh, "edits", args, ["C07"], [], shards=8 if quick else 14)
    specfam.report(check, fails, {})
    check.coverage["rule"] = ("base documents (hand-written valid documents, plus every fixture under fixtures/validation and fixtures/petstore that loads in the thorough tier) x structural edits at every "
                              "JSON pointer: delete, set null, retype to each other JSON kind, rename a key to \"\", to a dotted name, to a sibling's name, replace by a $ref to nowhere, add siblings next to "
                              "$ref, transplant a sub-tree, duplicate an array element; 15%% double edits. Each document that loads is validated in both continue-on-errors modes under a 60 s watchdog; TLC "
                              "(Trace_SpecRun, clause C07) requires every run to return and its phase trace, observed through the verifPhase hook, to be a run of SpecValidator.tla. Quick: a seeded sample of "
                              "%s edits per base (the rare edit kinds always kept). distinct = distinct documents that load." % ("160" if quick else "300"))
    check.assumptions = ["termination is a 60 s watchdog", "the specification's contribution is the totality post-condition and the phase machine; detection rests on the edit universe"]
    return check.finish()
