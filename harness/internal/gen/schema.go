// Package gen holds the seeded input generators of the conformance harness.
package gen

import (
	"encoding/json"
	"math/rand"
)

type M = map[string]interface{}

func mustJSON(s string) interface{} {
	var v interface{}
	if err := json.Unmarshal([]byte(s), &v); err != nil {
		panic(s + ": " + err.Error())
	}
	return v
}

func mustObj(s string) M { return mustJSON(s).(map[string]interface{}) }

// Keys, strings, numbers and patterns the generators draw from. Small alphabets make collisions
// (a key that is both a declared property and matched by a pattern, equal enum members, …) frequent.
var (
	Keys = []string{"a", "b", "c", "xa", "é"}
	Strs = []string{"", "a", "ab", "abc", "xa", "é", "日本", "2020-01-01", "nope", "A", "a@b.co"}
	Nums = []string{"0", "1", "-1", "2", "3", "5", "1.5", "-2.5", "0.3", "10", "100", "9007199254740991", "0.01", "7", "-3", "2.5", "4", "1000000", "0.000001", "123456.789"}
	Pats = []string{"^a", "b$", "^x", "^[0-9]{4}-", "é", "^.$", "a|c"}
	Fmts = []string{"date", "email", "uuid", "date-time", "unknownfmt"}
)

func numLit(r *rand.Rand) json.Number { return json.Number(Nums[r.Intn(len(Nums))]) }

// RInst returns a random JSON instance of depth <= d (numbers as json.Number literals; callers
// re-decode the marshalled text to obtain float64 carriers).
func RInst(r *rand.Rand, d int) interface{} {
	switch k := r.Intn(8); {
	case k == 0:
		return nil
	case k == 1:
		return r.Intn(2) == 0
	case k == 2:
		return numLit(r)
	case k == 3:
		return Strs[r.Intn(len(Strs))]
	case (k == 4 || k == 7) && d > 0:
		n := r.Intn(4)
		a := make([]interface{}, n)
		for i := range a {
			a[i] = RInst(r, d-1)
		}
		return a
	case k >= 5 && d > 0:
		m := M{}
		for i := r.Intn(4); i > 0; i-- {
			m[Keys[r.Intn(len(Keys))]] = RInst(r, d-1)
		}
		return m
	}
	return numLit(r)
}

// SchemaOpts tunes RSchema.
type SchemaOpts struct {
	Defs     []string // names of definitions a sub-schema may reference
	Format   bool     // allow format next to an explicit type
	Defaults bool     // plant defaults (outside the C01 domain)
	Degen    bool     // allow degenerate keywords (C06)
}

var types = []string{"null", "boolean", "number", "integer", "string", "array", "object"}

// RSchema returns a random schema (generic JSON form) of depth <= d.
func RSchema(r *rand.Rand, d int, o *SchemaOpts) M {
	s := M{}
	p := func(x float64) bool { return r.Float64() < x }
	if len(o.Defs) > 0 && p(0.12) {
		return M{"$ref": "#/definitions/" + o.Defs[r.Intn(len(o.Defs))]}
	}
	if p(0.45) {
		if p(0.7) {
			s["type"] = types[r.Intn(len(types))]
		} else {
			s["type"] = []interface{}{types[r.Intn(len(types))], types[r.Intn(len(types))]}
		}
	}
	if o.Format && p(0.12) {
		// format only next to an explicit type, as in Swagger
		if p(0.75) {
			s["type"] = "string"
			s["format"] = Fmts[r.Intn(len(Fmts))]
		} else if p(0.5) {
			s["type"] = "integer"
			s["format"] = "int32"
		} else {
			s["type"] = "number"
			s["format"] = "double"
		}
	}
	if p(0.12) {
		n := 1 + r.Intn(3)
		e := make([]interface{}, n)
		for i := range e {
			e[i] = RInst(r, 1)
		}
		s["enum"] = e
	}
	if p(0.12) {
		s["minimum"] = numLit(r)
		if p(0.3) {
			s["exclusiveMinimum"] = true
		}
	}
	if p(0.12) {
		s["maximum"] = numLit(r)
		if p(0.3) {
			s["exclusiveMaximum"] = true
		}
	}
	if p(0.08) {
		s["multipleOf"] = json.Number([]string{"1", "2", "0.5", "0.1", "0.01", "3", "2.5", "0.000001"}[r.Intn(8)])
	}
	if p(0.1) {
		s["minLength"] = r.Intn(3)
	}
	if p(0.1) {
		s["maxLength"] = r.Intn(4)
	}
	if p(0.1) {
		s["pattern"] = Pats[r.Intn(len(Pats))]
	}
	if p(0.08) {
		s["minItems"] = r.Intn(3)
	}
	if p(0.08) {
		s["maxItems"] = r.Intn(4)
	}
	if p(0.08) {
		s["uniqueItems"] = true
	}
	if p(0.08) {
		s["minProperties"] = r.Intn(3)
	}
	if p(0.08) {
		s["maxProperties"] = r.Intn(4)
	}
	if p(0.12) {
		req := []interface{}{Keys[r.Intn(len(Keys))]}
		if p(0.3) {
			req = append(req, Keys[r.Intn(len(Keys))])
		}
		s["required"] = req
	}
	if o.Defaults && p(0.2) {
		s["default"] = RInst(r, 1)
	}
	if d > 0 {
		sub := func() interface{} { return RSchema(r, d-1, o) }
		if p(0.2) {
			if p(0.5) {
				s["items"] = sub()
			} else {
				n := 1 + r.Intn(3)
				t := make([]interface{}, n)
				for i := range t {
					t[i] = sub()
				}
				s["items"] = t
			}
		}
		if p(0.12) {
			if p(0.5) {
				s["additionalItems"] = p(0.5)
			} else {
				s["additionalItems"] = sub()
			}
		}
		if p(0.25) {
			m := M{}
			for i := 1 + r.Intn(2); i > 0; i-- {
				m[Keys[r.Intn(len(Keys))]] = sub()
			}
			s["properties"] = m
		}
		if p(0.1) {
			s["patternProperties"] = M{Pats[r.Intn(len(Pats))]: sub()}
		}
		if p(0.15) {
			if p(0.5) {
				s["additionalProperties"] = p(0.5)
			} else {
				s["additionalProperties"] = sub()
			}
		}
		if p(0.1) {
			k := Keys[r.Intn(len(Keys))]
			if p(0.5) {
				s["dependencies"] = M{k: []interface{}{Keys[r.Intn(len(Keys))]}}
			} else {
				s["dependencies"] = M{k: sub()}
			}
		}
		for _, kw := range []string{"allOf", "anyOf", "oneOf"} {
			if p(0.1) {
				n := 1 + r.Intn(3)
				t := make([]interface{}, n)
				for i := range t {
					t[i] = sub()
				}
				s[kw] = t
			}
		}
		if p(0.1) {
			s["not"] = sub()
		}
	}
	return s
}

// RRoot returns a random root schema, possibly with definitions (non-looping: a definition only
// references definitions declared before it).
func RRoot(r *rand.Rand, d int, o SchemaOpts) M {
	var defs M
	o.Defs = nil
	if r.Float64() < 0.35 {
		defs = M{}
		names := []string{"d1", "d2", "d3"}[:1+r.Intn(3)]
		for _, n := range names {
			oo := o
			defs[n] = RSchema(r, max(d-1, 0), &oo)
			o.Defs = append(o.Defs, n)
		}
	}
	s := RSchema(r, d, &o)
	if _, isRef := s["$ref"]; isRef {
		// keep a plain root: wrap the reference
		s = M{"allOf": []interface{}{s}}
	}
	if defs != nil {
		s["definitions"] = defs
	}
	return s
}

func max(a, b int) int {
	if a > b {
		return a
	}
	return b
}
