SPECIFICATION Spec
CONSTANTS
  ErrMsgs = {"e1"}
  WarnMsgs = {"w1"}
  Contributing = {"schema", "refs", "dupProps", "requiredDefs", "defaults", "referenced"}
INVARIANTS Monotone WarningsNeverInvalidate ReturnedWarningsAreAttached SameWhenValid
PROPERTY AlwaysReturns
CHECK_DEADLOCK FALSE
