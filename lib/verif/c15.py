"""C15 - pattern matching always uses the expression that was asked for."""
import json, os
from . import common, schemafam
from .common import Inconclusive

MC_CFG = """SPECIFICATION Spec
CONSTANTS
  Gor = {g1, g2, g3}
  Pats = {"p", "q", "bad"}
  Bad = {"bad"}
  MaxReq = %d
INVARIANTS KeyIsSource ReturnedIsRequested InvalidNeverCached MutexOK
PROPERTY Monotone
CHECK_DEADLOCK FALSE
"""
GEN_CFG = """SPECIFICATION SimSpec
CONSTANTS
  Gor = {"g1", "g2", "g3"}
  Pats = {"p", "q", "bad"}
  Bad = {"bad"}
  MaxReq = 2
  Depth = 60
INVARIANT Emit
CHECK_DEADLOCK FALSE
"""
TRACE_CFG = "SPECIFICATION Spec\nINVARIANT Done\nCHECK_DEADLOCK FALSE\n"


def run(tier, seed):
    check = common.Check("C15", tier, seed, "model_checking")
    vh = common.build_vh()
    quick = tier == "quick"
    # 1. all interleavings of the cache protocol (3 goroutines)
    wd = common.workdir("C15-mc")
    r = common.tlc_or_inconclusive(wd, "RegexpCache", MC_CFG % (2 if quick else 3), timeout=3600, workers=8 if quick else 14, heap="8g")
    if r["violated"]:
        raise Inconclusive("RegexpCache.tla violates its own property %s (spec bug)" % r["violated"])
    check.add_tlc(r)
    check.coverage["exhaustive_model"] = dict(distinct_states=r["distinct"], transitions=r["states"], depth=r["depth"])
    # 1b. (thorough) unbounded in the number of requests: KeyIsSource + lock discipline is an inductive invariant (Apalache)
    if not quick:
        common.apalache_inductive(check, "RegexpCacheInd", cinit="ConstInit")
        check.coverage["inductive_invariant"] = "RegexpCacheInd!IndInv: Init => IndInv and IndInv /\\ Next => IndInv' discharged by Apalache 0.58 (3 goroutines, 3 patterns, unbounded requests)"
    # 2. spec -> code: TLC-generated schedules replayed through the gate hooks of rexp.go
    nproc, num = (4, 40) if quick else (12, 400)

    def gen(k):
        d = common.workdir("C15-gen-%d" % k)
        g = common.tlc(d, "Gen_RegexpCache", GEN_CFG, timeout=1800, simulate="num=%d" % num, extra_args=["-depth", "61", "-seed", str(seed * 100 + k)])
        if g["timeout"] or not any(f.startswith("sched_") for f in os.listdir(d)):
            raise Inconclusive("schedule generation failed:\n" + g["out"][-1500:])
        rep = os.path.join(d, "report.json")
        common.run([vh, "replay-rexp", "-in", d, "-out", rep], timeout=3600)
        return json.load(open(rep))
    scheds = unrep = 0
    for rep in common.parallel(gen, list(range(nproc)), jobs=nproc):
        scheds += rep["schedules"]
        unrep += len(rep["unreplayable"] or [])
        check.coverage["evaluations"] += rep["calls"] + rep["probes"]
        check.coverage["distinct_nontrivial"] += rep["distinct_schedules"]
        if rep.get("sample") and len(check.coverage["samples"]) < 2:
            check.coverage["samples"].append(dict(schedule_prefix=rep["sample"]))
        for d in (rep["divergences"] or [])[:3]:
            check.violation(dict(family="rexp-schedule", divergence=d), "schedule %s step %s: %s (pattern %r, string %r: got %s, regexp says %s)" % (
                d.get("file"), d.get("step"), d.get("what"), d.get("pattern"), d.get("string"), d.get("got"), d.get("fact")))
    check.coverage["schedules_replayed"] = scheds
    check.coverage["schedule_runs_not_following_the_modelled_protocol"] = unrep
    # 3. code -> spec: recorded concurrent uses validated by Trace_RegexpCache.tla
    wd = common.workdir("C15-trace")
    common.run([vh, "drive-rexp", "-seed", str(seed), "-n", str(120 if quick else 300), "-rounds", str(21 if quick else 70), "-out", wd], timeout=3600)
    meta = json.load(open(os.path.join(wd, "meta.json")))
    cks = schemafam.chunks(wd)

    def ev(c):
        rr = common.tlc_or_inconclusive(c, "Trace_RegexpCache", TRACE_CFG, timeout=1800)
        n = sum(1 for _ in open(os.path.join(c, "events.ndjson")))
        if "TRACE-DONE" not in rr["out"] or rr["distinct"] != n + 1:
            raise Inconclusive("trace not fully consumed: %s" % c)
        fails = common.read_ndjson(os.path.join(c, "fails.ndjson"))
        inputs = common.read_ndjson(os.path.join(c, "inputs.ndjson"))
        for f in fails:
            f["input"] = inputs[f["l"] - 1]
        return rr, fails
    for rr, fails in common.parallel(ev, cks):
        check.add_tlc(rr)
        for f in fails[:3]:
            if f["clause"].startswith("harness"):
                raise Inconclusive("harness fact unstable: %s" % f)
            check.violation(dict(family="rexp-trace", clause=f["clause"], want=f["want"], got=f["got"], input=f["input"]),
                            "pattern %r on %r via %s with %s goroutines: code says %s, the requested expression says %s" % (
                                f["input"].get("pattern"), f["input"].get("string"), f["input"].get("via"), f["input"].get("goroutines"), f["got"], f["want"]))
    check.coverage["evaluations"] += meta["events"]
    check.coverage["distinct_nontrivial"] += meta["distinct_nontrivial"]
    check.coverage["traces_validated_against_impl"] = len(cks) + scheds
    check.coverage["samples"] += meta["samples"][:2]
    check.coverage["rule"] = ("exhaustive: every interleaving of 3 goroutines x %d requests over {p, q, bad} on RegexpCache.tla. schedules: TLC -simulate behaviours replayed on real "
                              "goroutines parked at the 5 gates of rexp.go, each with several substitutions of near-colliding real patterns; every returned answer and, after the schedule, "
                              "every pattern x 12 probe strings is compared with an independently compiled regexp; KeyIsSource is evaluated on the real cache after every step. traces: 1..64 "
                              "goroutines using 19 valid/invalid patterns through Pattern / pattern / patternProperties. distinct = distinct schedules + distinct (pattern, string, via)." % (2 if quick else 3))
    check.assumptions = ["Go's regexp package is the oracle for what an expression matches (fact)", "lost cache entries (Monotone) are a design extra and do not affect the verdict"]
    return check.finish()
