---------------------------- MODULE SpecValidator ----------------------------
(***************************************************************************)
(* SpecValidator.Validate (spec.go): the phase machine and its             *)
(* early-stop policy, as a two-run product: the SAME document is validated  *)
(* once stopping early (continue-on-errors off) and once continuing.        *)
(*                                                                          *)
(*   schema -> refs -> dupOpIds -> dupProps -> params -> items ->           *)
(*   requiredDefs -> defaults -> examples -> pathParamNames -> referenced   *)
(*   -> return                                                              *)
(* With continue-on-errors off the run jumps to "return" after schema,      *)
(* after refs and after requiredDefs as soon as an error has been reported. *)
(* Every phase may contribute any subset of its possible messages; a phase  *)
(* that itself stops at its first offender (requiredDefs, dupProps) may     *)
(* contribute LESS when stopping early, never something else.               *)
(* A document in which a definition is its own ancestor ("circular") makes  *)
(* dupProps report an error, and the value checks (defaults, examples) are  *)
(* then skipped: no validator can be built for such a definition.           *)
(* On return, the deferred bookkeeping moves the warnings into both results.*)
(***************************************************************************)
EXTENDS Integers, Sequences, FiniteSets

CONSTANTS ErrMsgs, WarnMsgs,    \* message alphabets (per phase: any subset)
          Contributing          \* phases that may report something (all of them in reality; a subset bounds the model)

Phases == <<"schema", "refs", "dupOpIds", "dupProps", "params", "items", "requiredDefs", "defaults", "examples", "pathParamNames", "referenced", "return">>
Index(p) == CHOOSE i \in 1..Len(Phases) : Phases[i] = p
StopPoints == {"schema", "refs", "requiredDefs"}      \* the three early-stop guards of Validate
WarnOnly == {"referenced"}                             \* phases that can only warn

VARIABLES pc,        \* [mode -> index of the last phase executed, 0 = start]
          errs,      \* [mode -> set of error messages accumulated]
          warns,     \* [mode -> set of warnings accumulated]
          ret,       \* [mode -> [done, errors, warnings, returnedWarnings]]
          contrib,   \* the document: [phase -> [e : SUBSET ErrMsgs, w : SUBSET WarnMsgs]] in continue mode
          circ       \* the document: a definition has a circular ancestry
vars == <<pc, errs, warns, ret, contrib, circ>>
Modes == {"stop", "cont"}

Init == /\ pc = [m \in Modes |-> 0]
        /\ errs = [m \in Modes |-> {}] /\ warns = [m \in Modes |-> {}]
        /\ ret = [m \in Modes |-> [done |-> FALSE, errors |-> {}, warnings |-> {}, returnedWarnings |-> {}]]
        \* only the phases in Contributing report something in the bounded model (the others are transparent)
        /\ contrib \in [{Phases[i] : i \in 1..(Len(Phases) - 1)} -> [e : SUBSET ErrMsgs, w : SUBSET WarnMsgs]]
        /\ \A p \in WarnOnly : contrib[p].e = {}
        /\ circ \in BOOLEAN
        /\ (circ => contrib["dupProps"].e # {})          \* a circular ancestry is always reported, as an error
        /\ (circ => contrib["defaults"] = [e |-> {}, w |-> {}] /\ contrib["examples"] = [e |-> {}, w |-> {}])
        /\ \A i \in 1..(Len(Phases) - 1) : Phases[i] \notin Contributing => contrib[Phases[i]] = [e |-> {}, w |-> {}]

\* the next phase a run executes
NextPhase(m) ==
  LET cur == IF pc[m] = 0 THEN "start" ELSE Phases[pc[m]] IN
  IF m = "stop" /\ cur \in StopPoints /\ errs[m] # {} THEN "return"
  ELSE IF cur = "requiredDefs" /\ circ THEN "pathParamNames"      \* defaults and examples are skipped
  ELSE Phases[pc[m] + 1]

RunPhase(m) ==
  /\ ~ret[m].done
  /\ LET p == NextPhase(m) IN
     IF p = "return"
     THEN \* deferred: errs.MergeAsWarnings(warnings); warnings.AddErrors(errs.Warnings...)
          /\ ret' = [ret EXCEPT ![m] = [done |-> TRUE, errors |-> errs[m], warnings |-> warns[m], returnedWarnings |-> warns[m]]]
          /\ pc' = [pc EXCEPT ![m] = Len(Phases)]
          /\ UNCHANGED <<errs, warns, contrib, circ>>
     ELSE \E e \in SUBSET contrib[p].e, w \in SUBSET contrib[p].w :
            \* continuing: the whole contribution; stopping early: a phase may itself stop at its first offender
            /\ (m = "cont" => e = contrib[p].e /\ w = contrib[p].w)
            /\ (m = "stop" => IF contrib[p].e = {} THEN w = contrib[p].w ELSE e # {})
            /\ errs' = [errs EXCEPT ![m] = @ \cup e]
            /\ warns' = [warns EXCEPT ![m] = @ \cup w]
            /\ pc' = [pc EXCEPT ![m] = Index(p)]
            /\ UNCHANGED <<ret, contrib, circ>>
Next == \E m \in Modes : RunPhase(m)
Spec == Init /\ [][Next]_vars /\ WF_vars(Next)

(***************************************************************************)
(* C10 / C07 at design level                                                *)
(***************************************************************************)
Returned(m) == ret[m].done
\* every error reported when stopping early is also reported with continue-on-errors
Monotone == (Returned("stop") /\ Returned("cont")) => ret["stop"].errors \subseteq ret["cont"].errors
\* validity is the absence of errors: warnings alone never make a document invalid, and both runs agree on it
WarningsNeverInvalidate == (Returned("stop") /\ Returned("cont")) => ((ret["stop"].errors = {}) = (ret["cont"].errors = {}))
ReturnedWarningsAreAttached == \A m \in Modes : Returned(m) => ret[m].returnedWarnings = ret[m].warnings
\* a valid document is validated completely, whatever the mode: same errors (none) and same warnings
SameWhenValid == (Returned("stop") /\ Returned("cont") /\ ret["cont"].errors = {}) => ret["stop"].warnings = ret["cont"].warnings
AlwaysReturns == <>(Returned("stop") /\ Returned("cont"))

(***************************************************************************)
(* Used by the trace specification: is a recorded phase list a run of the   *)
(* machine?  q is a sequence of [p |-> phase, e |-> errors so far].         *)
(***************************************************************************)
\* the part of a run that the properties themselves talk about (C07: the validation ends by returning - the deferred
\* bookkeeping is the last step; C10: what was reported is never taken back). The rest of IsRun - the ORDER of the phases
\* and the early-stop policy - describes the present implementation, not a property: a trace that satisfies IsRunCore but
\* not IsRun means "the code no longer follows this model" (reported as model drift, not as a violation).
IsRunCore(q) ==
  /\ Len(q) >= 1 /\ q[Len(q)].p = "return"
  /\ \A i \in 1..(Len(q) - 1) : q[i].p # "return" /\ (q[i].e => q[i+1].e)

IsRun(q, mode, circular) ==
  /\ Len(q) >= 1 /\ q[Len(q)].p = "return"
  /\ \A i \in 1..(Len(q) - 1) : q[i].p # "return"
  /\ q[1].p = "schema" \/ Len(q) = 1
  /\ \A i \in 1..(Len(q) - 1) :
       LET stopHere == mode = "stop" /\ q[i].p \in StopPoints /\ q[i].e IN
       /\ q[i+1].p = IF stopHere THEN "return"
                    ELSE IF q[i].p = "requiredDefs" /\ circular THEN "pathParamNames"
                    ELSE Phases[Index(q[i].p) + 1]
       /\ (circular /\ Index(q[i].p) >= Index("dupProps") => q[i].e)   \* a circular ancestry has been reported by then
       /\ (q[i].e => q[i+1].e)                       \* errors are never retracted
  /\ \A i \in 1..Len(q) : q[i].p \in WarnOnly => (i = 1 \/ q[i].e = q[i-1].e)
=============================================================================
