"""Shared plumbing of the /verif driver: building the Go harness from /repo's working tree, running TLC,
known findings, evidence files, verdict reporting."""
import concurrent.futures, json, os, re, shutil, subprocess, sys, time

ROOT = os.path.dirname(os.path.dirname(os.path.dirname(os.path.abspath(__file__))))
REPO = os.environ.get("VERIF_REPO", "/repo")
WORK = os.environ.get("VERIF_WORK") or os.path.join(ROOT, ".work")
SPEC = os.path.join(ROOT, "spec")
HARNESS = os.path.join(ROOT, "harness")
EVIDENCE = os.environ.get("VERIF_EVIDENCE") or os.path.join(ROOT, "evidence")
REPLAY = os.path.join(EVIDENCE, "replay")
TLA_CP = "/opt/veriftools/tla/tla2tools.jar:/opt/veriftools/tla/CommunityModules-deps.jar"
NCPU = os.cpu_count() or 4

GOENV = dict(os.environ, GOFLAGS="-mod=mod", GOPROXY="off", GOSUMDB="off", GOTOOLCHAIN="local", CGO_ENABLED=os.environ.get("CGO_ENABLED", "1"))


class Inconclusive(Exception):
    """Infrastructure failure: never reported as a violation (exit 2)."""


def log(*a):
    print(*a, file=sys.stderr, flush=True)


def workdir(name, clean=True):
    d = os.path.join(WORK, name)
    if clean and os.path.isdir(d):
        shutil.rmtree(d, ignore_errors=True)
    os.makedirs(d, exist_ok=True)
    return d


_built = {}


def build_vh(tags=("verif",), race=False):
    """Build the harness against /repo's CURRENT working tree (module replace => /repo)."""
    key = (tuple(tags), race)
    if key in _built:
        return _built[key]
    os.makedirs(os.path.join(WORK, "bin"), exist_ok=True)
    harness = HARNESS
    if REPO != "/repo":
        # another tree than /repo (seeded-change trials in a scratch worktree): a private copy of the harness module whose
        # replace directive points there
        harness = os.path.join(WORK, "harness")
        shutil.rmtree(harness, ignore_errors=True)
        shutil.copytree(HARNESS, harness)
        gm = open(os.path.join(harness, "go.mod")).read().replace("=> /repo", "=> " + REPO)
        open(os.path.join(harness, "go.mod"), "w").write(gm)
    shutil.copyfile(os.path.join(REPO, "go.sum"), os.path.join(harness, "go.sum"))
    final = os.path.join(WORK, "bin", "vh-" + "-".join(tags) + ("-race" if race else ""))
    out = "%s.%d" % (final, os.getpid())   # built under a private name, then renamed: checks may run side by side
    cmd = ["go", "build", "-tags", " ".join(tags), "-o", out]
    if race:
        cmd.append("-race")
    cmd.append("./cmd/vh")
    t0 = time.time()
    p = subprocess.run(cmd, cwd=harness, env=GOENV, stdout=subprocess.PIPE, stderr=subprocess.STDOUT, text=True)
    if p.returncode != 0:
        raise Inconclusive("harness build failed (does /repo compile with -tags %s?):\n%s" % (" ".join(tags), p.stdout[-3000:]))
    os.replace(out, final)
    out = final
    log("[build] %s in %.1fs" % (os.path.basename(out), time.time() - t0))
    _built[key] = out
    return out


def run(cmd, cwd=None, timeout=None, env=None, check=True):
    try:
        p = subprocess.run(cmd, cwd=cwd, env=env or GOENV, stdout=subprocess.PIPE, stderr=subprocess.PIPE, text=True, timeout=timeout)
    except subprocess.TimeoutExpired:
        raise Inconclusive("command timed out after %ss: %s" % (timeout, " ".join(cmd)))
    if check and p.returncode != 0:
        raise Inconclusive("command failed (%d): %s\n%s\n%s" % (p.returncode, " ".join(cmd), p.stdout[-2000:], p.stderr[-3000:]))
    return p


def run_resumable(cmd, wd, name, timeout=3 * 3600, max_dead=4):
    """Run a driver that notes the case it is about to execute in <wd>/current.txt. A case that hangs makes the driver stop
    at once (exit 5, "<case>:hang" noted); a case that ends the process with a fatal error (stack overflow ...) is found
    noted. The run is started again with those cases reported as hang / crash instead of executed. A death that cannot be
    attributed to a case is inconclusive (exit 2), never a violation."""
    dead = []
    while True:
        shutil.rmtree(wd, ignore_errors=True)
        p = run(cmd + (["-crashed", ",".join(dead)] if dead else []), timeout=timeout, check=False)
        if p.returncode == 0:
            return dead
        cur = os.path.join(wd, "current.txt")
        if not os.path.exists(cur):
            raise Inconclusive("%s failed (%d):\n%s" % (cmd[1], p.returncode, p.stderr[-3000:]))
        if len(dead) >= max_dead:
            # the driver dies at case after case: report the attributed deaths and run nothing else
            shutil.rmtree(wd, ignore_errors=True)
            p = run(cmd + ["-crashed", ",".join(dead), "-only-crashed"], timeout=timeout, check=False)
            if p.returncode != 0:
                raise Inconclusive("%s failed (%d):\n%s" % (cmd[1], p.returncode, p.stderr[-3000:]))
            return dead
        c = open(cur).read().strip()
        if not c.endswith(":hang"):
            if "fatal error" not in p.stderr and "panic:" not in p.stderr:
                raise Inconclusive("%s failed (%d):\n%s" % (cmd[1], p.returncode, p.stderr[-3000:]))
            c += ":crash"
        if c in dead:
            raise Inconclusive("%s died twice on the same case: %s" % (cmd[1], c))
        log("[%s] %s: the driver process ended while running case %s - run started again without it" % (cmd[1], name, c))
        dead.append(c)


def tlc(wd, module, cfg_text, timeout=600, workers=1, heap="3g", extra_args=(), simulate=None):
    """Run TLC on spec/<module>.tla inside scratch dir wd (the trace/vector files live there).
    Returns dict(out, states, distinct, depth, violated, error)."""
    for f in os.listdir(SPEC):
        if f.endswith(".tla"):
            shutil.copyfile(os.path.join(SPEC, f), os.path.join(wd, f))
    with open(os.path.join(wd, module + ".cfg"), "w") as f:
        f.write(cfg_text)
    cmd = ["java", "-Xmx" + heap, "-Xss256m", "-XX:+UseParallelGC", "-XX:ParallelGCThreads=2", "-cp", TLA_CP, "tlc2.TLC",
           "-workers", str(workers), "-metadir", os.path.join(wd, "meta"), "-config", module + ".cfg"]
    if simulate:
        cmd += ["-simulate", simulate]
    cmd += list(extra_args) + [module + ".tla"]
    t0 = time.time()
    try:
        p = subprocess.run(cmd, cwd=wd, stdout=subprocess.PIPE, stderr=subprocess.STDOUT, text=True, timeout=timeout)
    except subprocess.TimeoutExpired as e:
        out = e.stdout.decode() if isinstance(e.stdout, bytes) else (e.stdout or "")
        shutil.rmtree(os.path.join(wd, "meta"), ignore_errors=True)
        return dict(out=out, timeout=True, states=0, distinct=0, depth=0, violated=None, error="timeout", wall=time.time() - t0, rc=-1)
    out = p.stdout
    with open(os.path.join(wd, "tlc.out"), "w") as f:
        f.write(out)
    shutil.rmtree(os.path.join(wd, "meta"), ignore_errors=True)   # TLC's state files: disk space is limited
    res = dict(out=out, timeout=False, wall=time.time() - t0, rc=p.returncode, states=0, distinct=0, depth=0, violated=None, error=None)
    m = re.findall(r"(\d+) states generated, (\d+) distinct states found", out)
    if m:
        res["states"], res["distinct"] = int(m[-1][0]), int(m[-1][1])
    ms = re.search(r"The number of states generated: (\d+)", out)   # simulation mode
    if ms and not res["states"]:
        res["states"] = int(ms.group(1))
        mt = re.findall(r"(\d+) traces generated", out)
        res["traces"] = int(mt[-1]) if mt else 0
    m = re.search(r"The depth of the complete state graph search is (\d+)", out)
    if m:
        res["depth"] = int(m.group(1))
    m = re.search(r"Error: Invariant (\w+) is violated", out)
    if m:
        res["violated"] = m.group(1)
    m = re.search(r"Error: Action property (\w+) is violated", out) or re.search(r"Error: Temporal properties were violated", out)
    if m and not res["violated"]:
        res["violated"] = m.group(1) if m.groups() else "temporal"
    if "Model checking completed. No error has been found." not in out and not res["violated"] and not simulate:
        res["error"] = "tlc-error"
    return res


def tlc_or_inconclusive(*a, **kw):
    r = tlc(*a, **kw)
    if r["timeout"]:
        raise Inconclusive("TLC timed out on %s" % a[1])
    if r["error"]:
        raise Inconclusive("TLC failed on %s:\n%s" % (a[1], r["out"][-3000:]))
    return r


def apalache_inductive(check, module, cinit=None, timeout=1800):
    """Discharge Init => IndInv (length 0) and IndInv /\\ Next => IndInv' (length 1) of spec/<module>.tla with Apalache."""
    wd = workdir("%s-apalache-%s" % (check.prop, module))
    shutil.copyfile(os.path.join(SPEC, module + ".tla"), os.path.join(wd, module + ".tla"))
    for init, length in (("Init", 0), ("IndInit", 1)):
        cmd = ["apalache-mc", "check"] + (["--cinit=" + cinit] if cinit else []) + ["--init=" + init, "--inv=IndInv", "--length=%d" % length, module + ".tla"]
        try:
            p = subprocess.run(cmd, cwd=wd, stdout=subprocess.PIPE, stderr=subprocess.STDOUT, text=True, timeout=timeout)
        except (OSError, subprocess.TimeoutExpired) as e:
            raise Inconclusive("apalache-mc did not run: %s" % e)
        if "EXITCODE: OK" not in p.stdout:
            raise Inconclusive("%s.tla: IndInv is not inductive (%s, length %d) - specification bug\n%s" % (module, init, length, p.stdout[-1500:]))
    shutil.rmtree(os.path.join(wd, "_apalache-out"), ignore_errors=True)


def parallel(fn, items, jobs=None):
    jobs = jobs or max(1, min(len(items), NCPU // 2))
    with concurrent.futures.ThreadPoolExecutor(max_workers=jobs) as ex:
        return list(ex.map(fn, items))


def parallel_jobs(check, fn, items, jobs=None):
    """Like parallel, for independent jobs exploring the same property: a job that dies (driver crash, hang, timeout)
    is inconclusive on its own, but does not hide a violation that another job established on the real code."""
    dead = []

    def guarded(it):
        try:
            return fn(it)
        except Inconclusive as e:
            dead.append(str(e))
            return None
    out = parallel(guarded, items, jobs=jobs)
    if dead and not check.violations:
        raise Inconclusive(dead[0])
    for d in dead:
        log("[job inconclusive, verdict rests on the other jobs] " + d[:300])
    if dead:
        check.coverage.setdefault("jobs_inconclusive", 0)
        check.coverage["jobs_inconclusive"] += len(dead)
    return out


def read_ndjson(path):
    out = []
    if not os.path.exists(path):
        return out
    with open(path) as f:
        for line in f:
            line = line.strip()
            if line:
                out.append(json.loads(line))
    return out


# ---------------------------------------------------------------- known findings

class Known:
    """KNOWN-FINDINGS.txt: `open:` entries name a deviation operator of the specification and a witness input."""

    def __init__(self):
        self.open = {}  # property -> {dev name -> dict(witness, text)}
        path = os.path.join(ROOT, "KNOWN-FINDINGS.txt")
        if not os.path.exists(path):
            return
        for line in open(path):
            line = line.strip()
            m = re.match(r"open:\s+property=(\S+)\s+id=(\S+)\s+witness=(\S+)\s+::\s+(.*)", line)
            if m:
                self.open.setdefault(m.group(1), {})[m.group(2)] = dict(witness=os.path.join(ROOT, m.group(3)), text=m.group(4))

    def devs(self, prop):
        return self.open.get(prop, {})


def tla_set(strings):
    return "{" + ", ".join('"%s"' % s for s in sorted(strings)) + "}"


# ---------------------------------------------------------------- verdict + evidence

class Check:
    def __init__(self, prop, tier, seed, level):
        self.prop, self.tier, self.seed, self.level = prop, tier, seed, level
        self.t0 = time.time()
        self.violations = []      # (replay path)
        self.known_hit = {}       # dev -> text
        self.coverage = dict(evaluations=0, distinct_nontrivial=0, rule="", samples=[], states=0, transitions=0,
                             traces_validated_against_impl=0)
        self.assumptions = []
        self.nrep = 0
        os.makedirs(REPLAY, exist_ok=True)
        for f in os.listdir(REPLAY):
            if f.startswith(prop + "-"):
                os.remove(os.path.join(REPLAY, f))

    def add_tlc(self, r):
        self.coverage["states"] += r.get("distinct", 0)
        self.coverage["transitions"] += r.get("states", 0)

    def violation(self, payload, what):
        """Record a violation with its replay file."""
        self.nrep += 1
        path = os.path.join(REPLAY, "%s-%d.json" % (self.prop, self.nrep))
        payload = dict(payload, property=self.prop, tier=self.tier, seed=self.seed, what=what)
        if self.nrep <= 5:
            with open(path, "w") as f:
                json.dump(payload, f, indent=1, ensure_ascii=True)
            self.violations.append((path, what))
        else:
            self.violations.append((self.violations[0][0], what))

    def known(self, dev, text):
        self.known_hit[dev] = text

    def finish(self):
        ev = dict(property_id=self.prop, tier=self.tier, seed=self.seed, level=self.level, coverage=self.coverage,
                  assumptions=self.assumptions, wall_s=round(time.time() - self.t0, 2), violations=len(self.violations),
                  known_findings_hit=sorted(self.known_hit))
        if not self.coverage["samples"]:
            self.coverage["samples"] = ["(none)"]
        os.makedirs(EVIDENCE, exist_ok=True)
        with open(os.path.join(EVIDENCE, self.prop + ".json"), "w") as f:
            json.dump(ev, f, indent=1, ensure_ascii=True)
        for dev, text in sorted(self.known_hit.items()):
            print("KNOWN-FINDING: property=%s id=%s %s" % (self.prop, dev, text))
        shown = set()
        for path, what in self.violations:
            if path in shown:
                continue
            shown.add(path)
            print("VIOLATION property=%s replay=%s :: %s" % (self.prop, path, what))
        print("%s %s tier=%s seed=%d: %d evaluations, %d states, %d violations, %d known findings hit, %.1fs" % (
            "FAIL" if self.violations else "PASS", self.prop, self.tier, self.seed, self.coverage["evaluations"],
            self.coverage["states"], len(self.violations), len(self.known_hit), time.time() - self.t0))
        return 1 if self.violations else 0
