"""C18 - applying defaults fills exactly the absent members that have a default."""
from . import common, schemafam
WHAT, PROP = "defaults", "C18"


def run(tier, seed, what=WHAT, prop=PROP):
    check = common.Check(prop, tier, seed, "model_checking")
    vh = common.build_vh()
    quick = tier == "quick"
    on_fail = schemafam.simple_violations(check, "post")
    # one-shot validations first, so that the pools hold results with spare capacity (what long-lived validators then borrow)
    meta = schemafam.run_traces(check, vh, what, ["drive-post", "-what", what, "-seed", seed, "-n", 1500 if quick else 40000, "-per", 3], "Trace_Post", [], on_fail)
    check.coverage["valid_instances"] = meta["valid"]
    check.coverage["rule"] = ("object schemas with defaults / undescribed members at depth 1-3 under properties, patternProperties, additionalProperties, items, allOf, anyOf, oneOf and definitions; instances shaped "
                              "after the schema with members dropped at random. Each VALID pair is validated with a long-lived validator, post.%s is applied and the resulting instance is recorded; TLC "
                              "evaluates the Post!%s predicate (existential over the selected anyOf/oneOf alternatives). non-trivial = distinct valid pairs whose instance was actually changed." % (
                                  "ApplyDefaults" if what == "defaults" else "Prune", "Defaulted" if what == "defaults" else "Pruned (+ idempotence without anyOf/oneOf)"))
    check.assumptions = ["validity is decided by JsonSchema!Valid and by the code (both must say valid)", "defaults reached behind a $ref / allOf of a property schema are tolerated (weaker reading)"]
    return check.finish()
