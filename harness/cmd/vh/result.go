package main

import (
	"bufio"
	"encoding/json"
	stderrors "errors"
	"flag"
	"fmt"
	"math/rand"
	"os"
	"path/filepath"
	"runtime"
	"runtime/debug"
	"sort"

	oaerrors "github.com/go-openapi/errors"
	"github.com/go-openapi/validate"

	"verifharness/internal/enc"
	"verifharness/internal/hook"
)

func init() {
	commands["replay-result"] = replayResult
	commands["drive-result"] = driveResult
}

type resultWorld struct {
	h   map[string]*validate.Result
	cnt int
}

// mkErr builds an error with message m; the concrete type rotates (de-duplication is by text).
func (w *resultWorld) mkErr(m string) error {
	if m == "nil" {
		return nil
	}
	w.cnt++
	switch w.cnt % 3 {
	case 0:
		return stderrors.New(m)
	case 1:
		return fmt.Errorf("%s", m)
	}
	return oaerrors.New(422, "%s", m)
}

func (w *resultWorld) operand(o string) *validate.Result {
	if o == "nil" {
		return nil
	}
	return w.h[o]
}

func strList(v interface{}) []string {
	a, _ := v.([]interface{})
	out := make([]string, len(a))
	for i := range a {
		out[i], _ = a[i].(string)
	}
	return out
}

// apply performs one operation of the Result vocabulary on the real objects.
func (w *resultWorld) apply(op map[string]interface{}) {
	name, _ := op["name"].(string)
	r, _ := op["r"].(string)
	switch name {
	case "New":
		if p, _ := op["pooled"].(bool); p {
			w.h[r] = validate.VerifBorrowResult()
		} else {
			w.h[r] = new(validate.Result)
		}
	case "AddErrors", "AddWarnings":
		var errs []error
		for _, m := range strList(op["ms"]) {
			errs = append(errs, w.mkErr(m))
		}
		if name == "AddErrors" {
			w.h[r].AddErrors(errs...)
		} else {
			w.h[r].AddWarnings(errs...)
		}
	case "Inc":
		w.h[r].Inc()
	case "Merge", "MergeAsErrors", "MergeAsWarnings":
		var os []*validate.Result
		for _, o := range strList(op["os"]) {
			os = append(os, w.operand(o))
		}
		var ret *validate.Result
		switch name {
		case "Merge":
			ret = w.h[r].Merge(os...)
		case "MergeAsErrors":
			ret = w.h[r].MergeAsErrors(os...)
		default:
			ret = w.h[r].MergeAsWarnings(os...)
		}
		if ret != w.h[r] {
			panic("merge must return its receiver")
		}
	}
}

func msgsOf(errs []error) []interface{} {
	out := []interface{}{}
	for _, e := range errs {
		if e == nil {
			out = append(out, "nil")
		} else {
			m := e.Error()
			if hook.IsPoison(m) {
				m = "POISON"
			}
			out = append(out, m)
		}
	}
	return out
}

func project(r *validate.Result) map[string]interface{} {
	return map[string]interface{}{
		"errs": msgsOf(r.Errors), "warns": msgsOf(r.Warnings), "mc": r.MatchCount,
		"q": map[string]interface{}{"valid": r.IsValid(), "haserr": r.HasErrors(), "haswarn": r.HasWarnings(), "hasany": r.HasErrorsOrWarnings(), "aserrnil": r.AsError() == nil},
	}
}

func nilQueries() map[string]interface{} {
	var r *validate.Result
	return map[string]interface{}{"valid": r.IsValid(), "haserr": r.HasErrors(), "haswarn": r.HasWarnings(), "hasany": r.HasErrorsOrWarnings(), "aserrnil": r.AsError() == nil}
}

func canon(v interface{}) string {
	b, _ := json.Marshal(v)
	return string(b)
}

func installResultPoison() {
	validate.VerifOnRedeem = func(pool string, obj any) bool {
		if pool == "results" {
			hook.Poison(obj)
		}
		return false
	}
}

// replayResult steps TLC-generated behaviours of Result.tla through real validate.Result values and compares
// the projection of every live result after every step (spec -> code).
func replayResult(args []string) error {
	fs := flag.NewFlagSet("replay-result", flag.ExitOnError)
	in := fs.String("in", "", "directory with beh_*.ndjson")
	out := fs.String("out", "", "report file")
	fs.Parse(args)
	installResultPoison()
	files, _ := filepath.Glob(filepath.Join(*in, "beh_*.ndjson"))
	sort.Strings(files)
	var divergences []interface{}
	steps := 0
	distinct := map[string]struct{}{}
	var sample interface{}
	for _, f := range files {
		w := &resultWorld{h: map[string]*validate.Result{}}
		fh, err := os.Open(f)
		if err != nil {
			return err
		}
		sc := bufio.NewScanner(fh)
		sc.Buffer(make([]byte, 1<<20), 1<<26)
		var prefix []interface{}
		first := true
		for sc.Scan() {
			var st struct {
				Op    map[string]interface{}            `json:"op"`
				Alive []string                          `json:"alive"`
				State map[string]map[string]interface{} `json:"state"`
			}
			if err := json.Unmarshal(sc.Bytes(), &st); err != nil {
				return fmt.Errorf("%s: %v", f, err)
			}
			if first {
				// the initial state of the specification: every handle is a fresh, empty result
				for rid := range st.State {
					w.h[rid] = new(validate.Result)
				}
				first = false
			}
			prefix = append(prefix, st.Op)
			status, pv := guarded(10e9, func() { w.apply(st.Op) })
			steps++
			distinct[canon(st.Op)+canon(st.State)] = struct{}{}
			if status != "" {
				divergences = append(divergences, map[string]interface{}{"file": filepath.Base(f), "step": len(prefix), "ops": prefix, "what": fmt.Sprintf("%s: %v", status, pv)})
				break
			}
			bad := false
			for _, rid := range st.Alive {
				want := st.State[rid]
				got := project(w.h[rid])
				if canon(want) != canon(got) {
					divergences = append(divergences, map[string]interface{}{"file": filepath.Base(f), "step": len(prefix), "ops": prefix, "result": rid, "want": want, "got": got, "what": "projection differs after " + canon(st.Op)})
					bad = true
					break
				}
			}
			if canon(nilQueries()) != canon(map[string]interface{}{"valid": true, "haserr": false, "haswarn": false, "hasany": false, "aserrnil": true}) {
				divergences = append(divergences, map[string]interface{}{"file": filepath.Base(f), "step": len(prefix), "what": "queries on a nil result"})
				bad = true
			}
			if bad {
				break
			}
			if sample == nil && len(prefix) == 6 {
				sample = append([]interface{}{}, prefix...)
			}
		}
		fh.Close()
	}
	return writeJSONFile(*out, map[string]interface{}{"behaviours": len(files), "steps": steps, "distinct_steps": len(distinct), "divergences": divergences, "sample": sample})
}

// driveResult executes seeded random operation sequences on real results and records every operation with the
// complete projected state after it (code -> spec), for Trace_Result.tla.
func driveResult(args []string) error {
	fs := flag.NewFlagSet("drive-result", flag.ExitOnError)
	seed := fs.Int64("seed", 1, "seed")
	n := fs.Int("n", 100, "sequences")
	length := fs.Int("len", 60, "operations per sequence")
	out := fs.String("out", "", "output directory")
	chunk := fs.Int("chunk", 3000, "events per chunk (cut at sequence boundaries)")
	fs.Parse(args)
	installResultPoison()
	r := rand.New(rand.NewSource(*seed))
	rids := []string{"r1", "r2", "r3", "r4", "r5"}
	debug.SetGCPercent(-1) // the pool hands redeemed results back (collected by hand every few sequences)
	msgs := []string{"m1", "m2", "m3", "m4", "m5", "m6", "nil"}
	w := newChunkWriter(*out, 0)
	defer w.close()
	distinct := map[string]struct{}{}
	var samples []interface{}
	inChunk := 0
	for s := 0; s < *n; s++ {
		// every other sequence without scribbling: a redeemed result keeps its NATURAL stale content (poison replaces the
		// message buffers, which masks a change whose effect depends on their real capacity or content)
		if s%2 == 1 {
			validate.VerifOnRedeem = nil
		} else {
			installResultPoison()
		}
		if s%8 == 7 {
			runtime.GC()
		}
		if w.ev == nil || inChunk >= *chunk {
			if err := w.open(); err != nil {
				return err
			}
			inChunk = 0
		}
		world := &resultWorld{h: map[string]*validate.Result{}}
		alive := map[string]bool{}
		pooled := map[string]bool{}
		for _, rid := range rids {
			world.h[rid] = new(validate.Result)
			alive[rid] = true
		}
		w.write(enc.M{"op": enc.M{"name": "Reset"}, "alive": rids, "state": enc.M{}}, enc.M{"seq": s})
		inChunk++
		var ops []interface{}
		for k := 0; k < *length; k++ {
			rid := rids[r.Intn(len(rids))]
			op := enc.M{"r": rid}
			var aliveList []string
			for _, x := range rids {
				if alive[x] {
					aliveList = append(aliveList, x)
				}
			}
			// TLC integers are 32 bit: a result whose match count has grown large (self-merges double it) is replaced
			big := alive[rid] && world.h[rid].MatchCount > 1000000
			switch c := r.Intn(10); {
			case !alive[rid] || c == 0 || big:
				op["name"] = "New"
				op["pooled"] = r.Intn(2) == 0
			case c <= 2:
				op["name"] = []string{"AddErrors", "AddWarnings"}[r.Intn(2)]
				ms := []interface{}{}
				for j := r.Intn(4); j > 0; j-- {
					ms = append(ms, msgs[r.Intn(len(msgs))])
				}
				if r.Intn(7) == 0 {
					// a large batch of distinct messages (buffers that outgrow whatever capacity a recycled result keeps)
					for j := 1; j <= 20; j++ {
						ms = append(ms, fmt.Sprintf("b%d", j))
					}
				}
				op["ms"] = ms
			case c == 3:
				op["name"] = "Inc"
			default:
				op["name"] = []string{"Merge", "MergeAsErrors", "MergeAsWarnings"}[r.Intn(3)]
				os := []interface{}{}
				used := map[string]bool{}
				for j := 1 + r.Intn(3); j > 0; j-- {
					o := "nil"
					if r.Intn(5) > 0 {
						o = aliveList[r.Intn(len(aliveList))]
					}
					// a pooled operand is redeemed by the merge: once per call, never its own receiver
					if o != "nil" && pooled[o] && (o == rid || used[o]) {
						o = "nil"
					}
					if o != "nil" && world.h[o].MatchCount > 1000000 {
						o = "nil"
					}
					used[o] = true
					os = append(os, o)
				}
				op["os"] = os
			}
			world.apply(op)
			switch op["name"] {
			case "New":
				alive[rid] = true
				pooled[rid] = op["pooled"].(bool)
			case "Merge", "MergeAsErrors", "MergeAsWarnings":
				for _, o := range op["os"].([]interface{}) {
					if os := o.(string); os != "nil" && pooled[os] {
						alive[os] = false
					}
				}
			}
			state := enc.M{}
			al := []interface{}{}
			for _, x := range rids {
				if alive[x] {
					state[x] = project(world.h[x])
					al = append(al, x)
				}
			}
			ops = append(ops, op)
			distinct[canon(op)+canon(state)] = struct{}{}
			if err := w.write(enc.M{"op": op, "alive": al, "state": state, "nilq": nilQueries()}, enc.M{"seq": s, "ops": append([]interface{}{}, ops...)}); err != nil {
				return err
			}
			inChunk++
		}
		if len(samples) < 2 {
			samples = append(samples, ops[:8])
		}
	}
	w.close()
	return writeJSONFile(filepath.Join(*out, "meta.json"), map[string]interface{}{"events": w.n, "sequences": *n, "distinct_nontrivial": len(distinct), "samples": samples})
}
