------------------------------- MODULE Gen_Api -------------------------------
(***************************************************************************)
(* History generator for the public API (spec -> code): every sequence of   *)
(* at most MaxLen steps over the call classes, with a garbage collection    *)
(* (which empties the pools) possible between calls.  The specification's   *)
(* claim about every such history is OutcomeIndependence (Trace_Pools): the *)
(* outcome of each call equals the outcome of that call alone.              *)
(***************************************************************************)
EXTENDS Json, TLC, Sequences, Integers, FiniteSets
CONSTANTS Classes, MaxLen
Steps == Classes \cup {"GC"}
Histories == UNION {[1..n -> Steps] : n \in 1..MaxLen}
\* a GC first or twice in a row adds nothing
Useful(h) == h[1] # "GC" /\ h[Len(h)] # "GC" /\ \A i \in 1..(Len(h) - 1) : ~(h[i] = "GC" /\ h[i+1] = "GC")
RECURSIVE SetToSeq(_)
SetToSeq(S) == IF S = {} THEN <<>> ELSE LET x == CHOOSE x \in S : TRUE IN <<x>> \o SetToSeq(S \ {x})
VARIABLE done
Init == done = FALSE
Next == ~done /\ done' = TRUE
Spec == Init /\ [][Next]_done
Emit == done => ndJsonSerialize("histories.ndjson", SetToSeq({h \in Histories : Useful(h)}))
=============================================================================
