package main

import (
	"encoding/json"
	"flag"
	"fmt"
	"math/rand"
	"os"
	"path/filepath"
	"runtime"
	"runtime/debug"
	"sort"
	"strings"
	"sync/atomic"
	"time"

	"github.com/go-openapi/loads"
	"github.com/go-openapi/spec"
	"github.com/go-openapi/strfmt"
	"github.com/go-openapi/validate"

	"verifharness/internal/enc"
	"verifharness/internal/gen"
	"verifharness/internal/hook"
)

func init() { commands["run-history"] = runHistory }

// outcome is the observable result of one validation: verdict, set of error messages, set of warnings.
func outcomeOf(errs, warns []error) string {
	v := "valid"
	if len(errs) > 0 {
		v = "invalid"
	}
	return v + " E" + strings.Join(messages(errs), "|") + " W" + strings.Join(messages(warns), "|")
}

// panicReg wraps a registry and panics at the k-th format check (C11).
type panicReg struct {
	strfmt.Registry
	n, k int
}

func (p *panicReg) Validates(name, data string) bool {
	p.n++
	if p.n == p.k {
		panic("format checker boom")
	}
	return p.Registry.Validates(name, data)
}

type call struct {
	Class string
	Desc  string
	run   func(reg strfmt.Registry) string
	Ref   string
	NFmt  int // number of format checks the call makes (dry run)
}

func schemaCall(class string, schemaText, instText []byte, how string) *call {
	c := &call{Class: class, Desc: how + " " + string(schemaText) + " <- " + string(instText)}
	c.run = func(reg strfmt.Registry) string {
		var s spec.Schema
		if err := json.Unmarshal(schemaText, &s); err != nil {
			return "schemaerr"
		}
		var data interface{}
		if how == "oneshot-number" || how == "recycle-number" {
			data, _ = decodeNumber(instText)
		} else {
			data, _ = decodeFloat(instText)
		}
		switch how {
		case "oneshot", "oneshot-number":
			err := validate.AgainstSchema(&s, data, reg)
			if err == nil {
				return outcomeOf(nil, nil)
			}
			return "invalid E" + strings.Join(compositeMessages(err), "|") + " W"
		case "recycle", "recycle-number":
			res := validate.NewSchemaValidator(&s, nil, "", reg, validate.WithRecycleValidators(true)).Validate(data)
			return outcomeOf(res.Errors, res.Warnings)
		default: // long-lived, no recycling
			res := validate.NewSchemaValidator(&s, nil, "", reg).Validate(data)
			return outcomeOf(res.Errors, res.Warnings)
		}
	}
	return c
}

func paramCall(class string, defText []byte, value interface{}, header, recycle bool) *call {
	vt, _ := json.Marshal(value)
	c := &call{Class: class, Desc: fmt.Sprintf("header=%v recycle=%v %s <- %s", header, recycle, defText, vt)}
	c.run = func(reg strfmt.Registry) string {
		var opts []validate.Option
		if recycle {
			opts = append(opts, validate.WithRecycleValidators(true))
		}
		var res *validate.Result
		if header {
			var h spec.Header
			if err := json.Unmarshal(defText, &h); err != nil {
				return "deferr"
			}
			res = validate.NewHeaderValidator("X-H", &h, reg, opts...).Validate(value)
		} else {
			var p spec.Parameter
			if err := json.Unmarshal(defText, &p); err != nil {
				return "deferr"
			}
			res = validate.NewParamValidator(&p, reg, opts...).Validate(value)
		}
		if res == nil {
			return "nil"
		}
		return outcomeOf(res.Errors, res.Warnings)
	}
	return c
}

func specCall(class, doc string, cont bool) *call {
	c := &call{Class: class, Desc: fmt.Sprintf("spec cont=%v %.80s", cont, doc)}
	c.run = func(reg strfmt.Registry) string {
		d, err := loads.Analyzed(json.RawMessage(doc), "")
		if err != nil {
			return "loaderr"
		}
		sv := validate.NewSpecValidator(d.Schema(), reg)
		sv.SetContinueOnErrors(cont)
		errs, warns := sv.Validate(d)
		return outcomeOf(errs.Errors, warns.Errors)
	}
	return c
}

// buildCatalogue builds the seeded call catalogue; classes are assigned from the outcome of the call ALONE in
// fresh mode (nothing pooled), which is also recorded as the call's reference outcome.
func buildCatalogue(seed int64, rec *hook.Recorder, want int, withSpec bool) map[string][]*call {
	r := rand.New(rand.NewSource(seed))
	cat := map[string][]*call{}
	add := func(c *call) {
		if c.Ref == "" {
			c.Ref = alone(rec, c, strfmt.Default)
		}
		cat[c.Class] = append(cat[c.Class], c)
	}
	formatty := func() gen.M {
		// schemas with several format-bearing strings spread over properties, composition branches and items
		s := gen.M{"type": "object", "properties": gen.M{
			"a": gen.M{"type": "string", "format": "date"},
			"b": gen.M{"allOf": []interface{}{gen.M{"type": "string", "format": "date"}}},
			"c": gen.M{"type": "array", "items": gen.M{"type": "string", "format": []string{"date", "email", "uuid"}[r.Intn(3)]}},
			"d": gen.M{"anyOf": []interface{}{gen.M{"type": "string", "format": "email"}, gen.M{"type": "integer"}}},
			"e": gen.M{"not": gen.M{"type": "string", "format": "uuid"}},
			"f": gen.M{"oneOf": []interface{}{gen.M{"type": "integer"}, gen.M{"type": "string", "format": "date"}, gen.M{"type": "string", "format": "email"}}},
		},
			// format checks below a pattern property and below additionalProperties (the object validator has resolved its patterns by then)
			"patternProperties":    gen.M{"^x": gen.M{"type": "string", "format": "date"}},
			"additionalProperties": gen.M{"type": "string", "format": "email"},
		}
		if r.Intn(2) == 0 {
			s["oneOf"] = []interface{}{gen.M{"required": []interface{}{"a"}}, gen.M{"required": []interface{}{"zz"}}}
		}
		return s
	}
	for tries := 0; tries < 4000; tries++ {
		done := true
		for _, cl := range []string{"os-valid", "os-invalid", "os-composite", "sv-recycle-valid", "sv-recycle-invalid", "os-format"} {
			if len(cat[cl]) < want {
				done = false
			}
		}
		if done {
			break
		}
		var s gen.M
		composite := false
		switch r.Intn(4) {
		case 0:
			s = gen.NestingSchema(r, 3)
		case 1:
			s = formatty()
		default:
			s = gen.RRoot(r, 3, gen.SchemaOpts{Format: true})
		}
		for _, k := range []string{"allOf", "anyOf", "oneOf", "not"} {
			if _, ok := s[k]; ok {
				composite = true
			}
		}
		st, _ := json.Marshal(s)
		defs, _ := s["definitions"].(map[string]interface{})
		inst := gen.InstFor(r, s, defs, 4, 0.12)
		it, _ := json.Marshal(inst)
		how := []string{"oneshot", "recycle"}[r.Intn(2)]
		probe := schemaCall("?", st, it, how)
		ref := alone(rec, probe, strfmt.Default)
		if strings.HasPrefix(ref, "PANIC") || ref == "schemaerr" {
			continue
		}
		valid := strings.HasPrefix(ref, "valid")
		class := ""
		switch {
		case strings.Contains(string(st), `"format"`) && how == "oneshot" && len(cat["os-format"]) < want:
			class = "os-format"
		case how == "oneshot" && composite && len(cat["os-composite"]) < want:
			class = "os-composite"
		case how == "oneshot" && valid:
			class = "os-valid"
		case how == "oneshot":
			class = "os-invalid"
		case valid:
			class = "sv-recycle-valid"
		default:
			class = "sv-recycle-invalid"
		}
		if len(cat[class]) >= want {
			continue
		}
		probe.Class, probe.Ref = class, ref
		add(probe)
	}
	// format-bearing workloads with instances that reach every format check (the panic injection points of C11)
	fmtInsts := []string{
		`{"a":"2020-01-01","b":"2020-01-01","c":["2020-01-01","a@b.co","a8098c1a-f86e-11da-bd1a-00112444be1e"],"d":"a@b.co","e":"zz","f":"2020-01-01","xd":"2020-01-02","other":"a@b.co"}`,
		`{"a":"nope","b":"2020-01-01","c":["x"],"d":"zz","e":"a8098c1a-f86e-11da-bd1a-00112444be1e"}`,
		`{"e":"zz","c":["2020-01-01","2020-01-02"],"a":"2020-01-01","f":"a@b.co","xq":"nope","zz":"c@d.eu"}`,
		`{"b":"nope","d":5,"e":"a8098c1a-f86e-11da-bd1a-00112444be1e","a":"2020-01-01","f":"nope"}`,
	}
	for i := 0; i < 2*len(fmtInsts); i++ {
		st, _ := json.Marshal(formatty())
		how := []string{"oneshot", "recycle"}[i%2]
		add(schemaCall("os-format", st, []byte(fmtInsts[i%len(fmtInsts)]), how))
	}
	// closed objects with their own patterns at three levels: a validator that still holds another schema's patterns
	// lets "xq" through (or rejects "kq") at the level it serves
	for i := 0; i < want; i++ {
		lvl := func(inner interface{}) gen.M {
			m := gen.M{"type": "object", "additionalProperties": false, "patternProperties": gen.M{"^k": gen.M{}}}
			if inner != nil {
				m["properties"] = gen.M{"n": inner}
			}
			return m
		}
		st, _ := json.Marshal(lvl(lvl(lvl(nil))))
		inst := []string{`{"xq":1,"kq":1,"n":{"xq":1,"kq":2,"n":{"xq":1,"kq":3}}}`, `{"kq":1,"n":{"kq":2,"n":{"kq":3}}}`, `{"xd":"2020-01-01","n":{"xe":1,"n":{"other":1}}}`}[i%3]
		add(schemaCall("os-patterns", st, []byte(inst), []string{"oneshot", "recycle"}[i%2]))
	}
	// the documented invalid-schema panic, met lazily while validating (unresolvable $ref under a property, items, not)
	for _, bad := range []string{
		`{"type":"object","properties":{"a":{"type":"string"},"z":{"$ref":"#/definitions/nowhere"}}}`,
		`{"type":"object","properties":{"z":{"items":{"$ref":"#/definitions/nowhere"}}}}`,
		`{"type":"object","properties":{"z":{"not":{"properties":{"q":{"$ref":"#/definitions/nowhere"}}}}}}`,
		`{"allOf":[{"type":"object"},{"properties":{"z":{"$ref":"#/definitions/nowhere"}}}]}`,
	} {
		c := schemaCall("os-badref", []byte(bad), []byte(`{"a":"x","z":[{"q":1}]}`), []string{"oneshot", "recycle"}[len(cat["os-badref"])%2])
		c.Ref = "PANIC"
		cat["os-badref"] = append(cat["os-badref"], c)
	}
	// composition matrix: every pattern of succeeding / failing branches (length <= 3) under anyOf / oneOf / allOf,
	// with failing branches of different match counts (selection of the "best" failure), and not
	okB := []string{`{"type":"integer"}`, `{"minimum":1}`, `{"type":"number","minimum":2}`}
	failB := []string{`{"type":"string"}`, `{"maximum":1}`, `{"type":"integer","maximum":1,"multipleOf":2}`}
	for _, kw := range []string{"anyOf", "oneOf", "allOf"} {
		for n := 1; n <= 3; n++ {
			for mask := 0; mask < 1<<n; mask++ {
				var bs []string
				for j := 0; j < n; j++ {
					if mask&(1<<j) != 0 {
						bs = append(bs, okB[(j+mask)%len(okB)])
					} else {
						bs = append(bs, failB[(j+mask)%len(failB)])
					}
				}
				st := []byte(fmt.Sprintf(`{"%s":[%s]}`, kw, strings.Join(bs, ",")))
				add(schemaCall("os-branches", st, []byte("3"), "oneshot"))
				add(schemaCall("sv-recycle-branches", st, []byte("3"), "recycle"))
			}
		}
	}
	for _, nb := range []string{`{"not":{"type":"string"}}`, `{"not":{"type":"integer"}}`, `{"not":{"anyOf":[{"type":"string"},{"minimum":1}]}}`} {
		add(schemaCall("os-branches", []byte(nb), []byte("3"), "oneshot"))
		add(schemaCall("sv-recycle-branches", []byte(nb), []byte("3"), "recycle"))
	}
	// calls with ONE of the Swagger-specific options, or with schemata results skipped, at root paths ending like schema keywords
	optInsts := []string{`{"items":"dummy"}`, `{"type":"array"}`, `{"type":"array","items":{"type":"string"}}`, `{"items":{},"type":"string"}`, `{"a":1}`}
	optSchemas := []string{`{"type":"object"}`, `{"type":"object","properties":{"items":{},"type":{"type":"string"}}}`, `{"anyOf":[{"required":["zz"],"minProperties":9},{"properties":{"type":{"enum":["x"]}},"required":["type","q"]}]}`}
	roots := []string{"", "definitions.thing.properties", "x.default", "a.example"}
	for i := 0; i < 12; i++ {
		st, it, root := []byte(optSchemas[i%len(optSchemas)]), []byte(optInsts[i%len(optInsts)]), roots[i%len(roots)]
		for _, oc := range []struct {
			class string
			opts  []validate.Option
		}{
			{"sv-recycle-typecheck", []validate.Option{validate.EnableObjectArrayTypeCheck(true), validate.WithRecycleValidators(true)}},
			{"sv-recycle-swagger", []validate.Option{validate.SwaggerSchema(true), validate.WithRecycleValidators(true)}},
			{"sv-recycle-itemscheck", []validate.Option{validate.EnableArrayMustHaveItemsCheck(true), validate.WithRecycleValidators(true)}},
			{"os-skipschemata", []validate.Option{validate.WithSkipSchemataResult(true)}},
		} {
			oc := oc
			c := &call{Class: oc.class, Desc: fmt.Sprintf("%s root=%q %s <- %s", oc.class, root, st, it)}
			c.run = func(reg strfmt.Registry) string {
				var s spec.Schema
				_ = json.Unmarshal(st, &s)
				data, _ := decodeFloat(it)
				if oc.class == "os-skipschemata" {
					err := validate.AgainstSchema(&s, data, reg, oc.opts...)
					if err == nil {
						return outcomeOf(nil, nil)
					}
					return "invalid E" + strings.Join(compositeMessages(err), "|") + " W"
				}
				res := validate.NewSchemaValidator(&s, nil, root, reg, oc.opts...).Validate(data)
				return outcomeOf(res.Errors, res.Warnings)
			}
			add(c)
		}
	}
	// early exits: nil data, failed json.Number conversion
	nilSchemas := []string{`{"type":"object","properties":{"a":{"type":"string"}}}`, `{"type":["null","string"],"enum":[null,"a"]}`, `{"allOf":[{"type":"string"}],"enum":["a"]}`, `{"type":"string","enum":["a","b"]}`}
	for i := 0; i < want; i++ {
		add(schemaCall("os-nil", []byte(nilSchemas[i%len(nilSchemas)]), []byte("null"), "oneshot"))
		add(schemaCall("sv-recycle-nil", []byte(nilSchemas[(i+1)%len(nilSchemas)]), []byte("null"), "recycle"))
		add(schemaCall("os-badnum", []byte(`{"type":"integer","maximum":5,"enum":[1,2]}`), []byte([]string{"1.5", "1e400", "3"}[i%3]), "oneshot-number"))
		add(schemaCall("sv-recycle-badnum", []byte(`{"type":"number","minimum":2,"allOf":[{"maximum":10}]}`), []byte([]string{"1e400", "7", "1"}[i%3]), "recycle-number"))
	}
	// a nil schema is a legal argument (nothing to validate against: the call returns nil / the shared empty result)
	for i := 0; i < want; i++ {
		i := i
		c := &call{Class: "os-nilschema", Desc: fmt.Sprintf("AgainstSchema(nil schema) #%d", i)}
		c.run = func(reg strfmt.Registry) string {
			data := []interface{}{nil, "x", 3.0, map[string]interface{}{"a": 1.0}}[i%4]
			if i%2 == 0 {
				if err := validate.AgainstSchema(nil, data, reg); err != nil {
					return "invalid E" + strings.Join(compositeMessages(err), "|") + " W"
				}
				return outcomeOf(nil, nil)
			}
			res := validate.NewSchemaValidator(nil, nil, "", reg, validate.WithRecycleValidators(true)).Validate(data)
			if res == nil {
				return "nil"
			}
			return outcomeOf(res.Errors, res.Warnings)
		}
		add(c)
	}
	// parameters and headers, recycling, each used once (first-error exit included)
	for len(cat["pv-recycle"]) < want || len(cat["hv-recycle"]) < want || len(cat["pv-recycle-invalid"]) < want {
		def := gen.SimpleDef(r, 2)
		header := r.Intn(2) == 0
		if !header {
			def["name"] = "p"
			def["in"] = []string{"query", "header", "path", "formData"}[r.Intn(4)]
		}
		dt, _ := json.Marshal(def)
		val := gen.SimpleValue(r, def, 0.15)
		c := paramCall("?", dt, val, header, true)
		ref := alone(rec, c, strfmt.Default)
		if strings.HasPrefix(ref, "PANIC") {
			continue
		}
		c.Ref = ref
		switch {
		case header:
			c.Class = "hv-recycle"
		case strings.HasPrefix(ref, "invalid"):
			c.Class = "pv-recycle-invalid"
		default:
			c.Class = "pv-recycle"
		}
		if len(cat[c.Class]) < want {
			add(c)
		}
	}
	// recycled parameter / header validators whose chain reaches the format checker (panic injection points of C11 too)
	for i, pf := range []struct {
		def string
		val interface{}
	}{
		{`{"type":"string","format":"date"}`, "2020-01-01"},
		{`{"type":"string","format":"email","minLength":1}`, "nope"},
		{`{"type":"array","format":"date","items":{"type":"string","format":"date"}}`, []interface{}{"2020-01-01", "x"}},
		{`{"type":"string","format":"uuid","enum":["a8098c1a-f86e-11da-bd1a-00112444be1e"]}`, "a8098c1a-f86e-11da-bd1a-00112444be1e"},
	} {
		for _, header := range []bool{false, true} {
			def := pf.def
			if !header {
				def = `{"name":"p","in":"query",` + def[1:]
			}
			c := paramCall("pv-format", []byte(def), pf.val, header, i%2 == 0 || header)
			c.Class = "pv-format"
			add(c)
		}
	}
	if withSpec {
		for i, d := range gen.BaseDocs {
			add(specCall("spec-valid", d, i%2 == 0))
		}
		for i, d := range gen.BadDocs {
			add(specCall("spec-invalid", d, i%2 == 0))
		}
		// a rejected document whose default / example checks meet an unresolvable $ref inside a child validator: the library
		// recovers that panic itself (continue-on-errors) and the call returns normally
		// (ONE unresolvable reference: with several, the "First found" message names either - known finding C10/FirstFoundUnresolved)
		const internalRecoverDoc = `{"swagger":"2.0","info":{"title":"i","version":"1"},"paths":{"/n":{"get":{"operationId":"n","responses":{"200":{"description":"ok"}}}}},"definitions":{"A":{"type":"object","properties":{"p":{"type":"object","properties":{"q":{"$ref":"#/definitions/missing"}}},"k":{"type":"string"}},"default":{"k":"v","p":{"q":1}},"example":{"p":{"q":2}}}}}`
		add(specCall("spec-internal-recover", internalRecoverDoc, true))
		add(specCall("spec-internal-recover", internalRecoverDoc, true))
		// a document whose own members, defaults and examples go through the format checker (panic injection points of C11:
		// the k-th check may be one the library recovers from itself, or one whose panic reaches the caller)
		const specFormatDoc = `{"swagger":"2.0","info":{"title":"f","version":"1","contact":{"email":"a@b.co","url":"http://e.example.com"}},"paths":{"/f":{"get":{"operationId":"f","parameters":[{"name":"d","in":"query","type":"string","format":"date","default":"2020-01-01"},{"name":"l","in":"query","type":"array","format":"date","items":{"type":"string","format":"date"},"default":["2020-01-02"]}],"responses":{"200":{"description":"ok","headers":{"X-Id":{"type":"string","format":"uuid","default":"a8098c1a-f86e-11da-bd1a-00112444be1e"}},"schema":{"$ref":"#/definitions/F"},"examples":{"application/json":{"when":"2020-01-03","who":"c@d.eu"}}}}}}},"definitions":{"F":{"type":"object","properties":{"when":{"type":"string","format":"date","default":"2020-01-04","example":"2020-01-05"},"who":{"type":"string","format":"email","example":"e@f.gh"},"any":{"allOf":[{"type":"string","format":"date"}],"default":"2020-01-06"}},"default":{"when":"2020-01-07","who":"g@h.ij"}}}}`
		add(specCall("spec-format", specFormatDoc, false))
		add(specCall("spec-format", specFormatDoc, true))
	}
	return cat
}

// alone runs a call in fresh mode (nothing is ever pooled, every borrow allocates) and returns its outcome.
func alone(rec *hook.Recorder, c *call, reg strfmt.Registry) (out string) {
	prev, prevRec := rec.Mode(), false
	rec.SetMode("fresh")
	rec.Recording(false)
	defer func() { rec.SetMode(prev); rec.Recording(prevRec) }()
	return protect(func() string { return c.run(reg) })
}

func protect(f func() string) (out string) {
	defer func() {
		if r := recover(); r != nil {
			out = fmt.Sprintf("PANIC %v", r)
		}
	}()
	return f()
}

func poolEventJSON(e hook.PoolEvent) enc.M {
	m := enc.M{"ev": e.Kind, "q": int(e.Ticket % 2000000000), "g": e.G}
	switch e.Kind {
	case "B":
		m["p"], m["o"] = e.Pool, e.Obj
	case "R":
		m["p"], m["o"], m["touched"], m["empty"] = e.Pool, e.Obj, e.Touched, e.Empty
	case "call":
		m["c"], m["class"] = e.Call, e.Class
	case "ret":
		m["c"], m["class"], m["out"], m["ref"] = e.Call, e.Class, e.Out, e.Ref
	}
	return m
}

// runHistory executes call histories (TLC-generated or seeded) on the pools with poisoning on, compares every
// outcome with the call's alone/fresh reference and records the borrow/redeem stream for Trace_Pools.tla.
func runHistory(args []string) error {
	fs := flag.NewFlagSet("run-history", flag.ExitOnError)
	seed := fs.Int64("seed", 1, "seed")
	in := fs.String("in", "", "file with histories: one JSON array of steps per line ([\"os-valid\",\"GC\",\"panic:os-format:2\",...]); empty = seeded random")
	n := fs.Int("n", 50, "number of seeded random histories")
	length := fs.Int("len", 40, "length of seeded random histories")
	out := fs.String("out", "", "output directory")
	withSpec := fs.Bool("spec", true, "include whole-specification validations")
	panics := fs.Bool("panics", false, "seeded histories start with a panicking call (C11)")
	full := fs.Bool("full", false, "the build logs borrows too (validatedebug)")
	poison := fs.Bool("poison", true, "scribble over redeemed objects (off: objects keep their natural stale content)")
	threads := fs.Int("threads", 1, "GOMAXPROCS")
	crashed := fs.String("crashed", "", "comma separated <history index>:<how> of histories that killed (or hung) an earlier attempt of this run: reported, not run again")
	onlyCrashed := fs.Bool("only-crashed", false, "report the histories listed in -crashed and run nothing")
	fs.Parse(args)
	crashedHow := map[string]string{}
	for _, c := range strings.Split(*crashed, ",") {
		if parts := strings.Split(c, ":"); len(parts) == 2 {
			crashedHow[parts[0]] = parts[1]
		}
	}
	debug.SetMaxStack(192 << 20)
	runtime.GOMAXPROCS(*threads)
	debug.SetGCPercent(-1) // pools are emptied only by explicit "GC" steps: maximal reuse
	rec := hook.NewRecorder()
	rec.Empty = enc.PtrOf(validate.VerifEmptyResult())
	validate.VerifOnRedeem = rec.OnRedeem
	validate.VerifOnBorrow = rec.OnBorrow
	rec.Register(1)
	// watchdog: a call that never returns (a pool corrupted by a defect can make validators chase their own tail) ends the
	// run with a distinct exit status instead of hanging the check
	var lastProgress atomic.Int64
	lastProgress.Store(time.Now().Unix())
	go func() {
		for {
			time.Sleep(5 * time.Second)
			if time.Now().Unix()-lastProgress.Load() > 240 {
				fmt.Fprintln(os.Stderr, "run-history: no call returned for 240s")
				if b, err := os.ReadFile(filepath.Join(*out, "current.txt")); err == nil && !strings.Contains(string(b), ":") {
					_ = os.WriteFile(filepath.Join(*out, "current.txt"), []byte(string(b)+":hang"), 0o644)
				}
				os.Exit(5)
			}
		}
	}()
	cat := buildCatalogue(*seed, rec, 6, *withSpec)
	classes := make([]string, 0, len(cat))
	for k := range cat {
		if k != "os-badref" { // only used as a panicking step
			classes = append(classes, k)
		}
	}
	sort.Strings(classes)
	// dry run: number of format checks of the format-bearing calls
	for _, cl := range []string{"os-format", "pv-format", "spec-format"} {
		for _, c := range cat[cl] {
			pr := &panicReg{Registry: strfmt.Default, k: -1}
			alone(rec, c, pr)
			c.NFmt = pr.n
		}
	}
	var histories [][]string
	if *in != "" {
		b, err := os.ReadFile(*in)
		if err != nil {
			return err
		}
		for _, line := range strings.Split(string(b), "\n") {
			if strings.TrimSpace(line) == "" {
				continue
			}
			var h []string
			if err := json.Unmarshal([]byte(line), &h); err != nil {
				return err
			}
			histories = append(histories, h)
		}
	} else {
		r := rand.New(rand.NewSource(*seed + 77))
		var panicSteps []string
		if *panics {
			// every k from 1 to the number of format-checker invocations of every format-bearing workload
			for _, cl := range []string{"os-format", "pv-format", "spec-format"} {
				for ci, c := range cat[cl] {
					for k := 1; k <= c.NFmt; k++ {
						panicSteps = append(panicSteps, fmt.Sprintf("panic:%s#%d:%d", cl, ci, k))
					}
				}
			}
			for ci := range cat["os-badref"] {
				panicSteps = append(panicSteps, fmt.Sprintf("panic:os-badref#%d:0", ci))
			}
			if *n < len(panicSteps) {
				r.Shuffle(len(panicSteps), func(i, j int) { panicSteps[i], panicSteps[j] = panicSteps[j], panicSteps[i] })
				// panics inside whole-specification validation come first when specifications are part of the run
				sort.SliceStable(panicSteps, func(i, j int) bool {
					return strings.HasPrefix(panicSteps[i], "panic:spec-") && !strings.HasPrefix(panicSteps[j], "panic:spec-")
				})
			} else {
				*n = len(panicSteps)
			}
		}
		for i := 0; i < *n; i++ {
			var h []string
			if *panics {
				h = append(h, panicSteps[i])
				if r.Intn(3) == 0 {
					h = append(h, panicSteps[r.Intn(len(panicSteps))]) // two recovered panics in a row
				}
				// a fixed battery: every class once, right after the panic
				h = append(h, classes...)
			}
			for k := 0; k < *length; k++ {
				if r.Intn(25) == 0 {
					h = append(h, "GC")
				} else {
					h = append(h, classes[r.Intn(len(classes))])
				}
			}
			histories = append(histories, h)
		}
	}
	w := newChunkWriter(*out, 0)
	defer w.close()
	rot := map[string]int{}
	ncalls, npanics := 0, 0
	distinctPairs := map[string]struct{}{}
	var samples []interface{}
	var mismatches []interface{}
	inChunk := 0
	for hi, h := range histories {
		if w.ev == nil || inChunk > 20000 {
			w.open()
			inChunk = 0
		}
		// same protocol as the other drivers: the history is noted before it runs; one that ended the process (fatal error)
		// or hung in an earlier attempt is reported as a call whose outcome is "the driver died", not run again
		if how, dead := crashedHow[fmt.Sprint(hi)]; dead {
			for _, e := range []hook.PoolEvent{{Kind: "reset", G: 1}, {Kind: "call", G: 1, Call: 0, Class: "history"},
				{Kind: "ret", G: 1, Call: 0, Class: "history", Out: digest("the driver process died: " + how), Ref: digest("every call returns")}} {
				e.Ticket = uint64(inChunk + 1)
				if err := w.write(poolEventJSON(e), enc.M{"history": hi, "steps": h, "driver": how}); err != nil {
					return err
				}
				inChunk++
			}
			mismatches = append(mismatches, enc.M{"history": hi, "step": 0, "class": "history", "call": "the whole history", "got": "the driver process died (" + how + ")", "alone": "every call returns"})
			continue
		}
		if *onlyCrashed {
			continue
		}
		_ = os.WriteFile(filepath.Join(*out, "current.txt"), []byte(fmt.Sprint(hi)), 0o644)
		validate.VerifResetPools()
		hook.Forget()
		rec.Drain()
		rec.TrackBorrows(*full)
		if *poison {
			rec.SetMode("poison")
		} else {
			rec.SetMode("plain")
		}
		rec.Recording(true)
		rec.Mark(hook.PoolEvent{Kind: "reset", G: 1})
		prevClass := "-"
		var executed []string
		for si, step := range h {
			lastProgress.Store(time.Now().Unix())
			switch {
			case step == "GC":
				runtime.GC()
				runtime.GC()
				continue
			case strings.HasPrefix(step, "panic:"):
				// panic:<class>:<k> : the k-th format check of a format-bearing call panics; the caller recovers
				parts := strings.Split(step, ":")
				clName, idx := parts[1], -1
				if j := strings.IndexByte(clName, '#'); j >= 0 {
					fmt.Sscanf(clName[j+1:], "%d", &idx)
					clName = clName[:j]
				}
				cl := cat[clName]
				if len(cl) == 0 {
					continue
				}
				if idx < 0 {
					idx = rot[clName]
					rot[clName]++
				}
				c := cl[idx%len(cl)]
				k := 1
				fmt.Sscanf(parts[2], "%d", &k)
				if c.NFmt > 0 {
					k = (k-1)%c.NFmt + 1
				}
				pr := &panicReg{Registry: strfmt.Default, k: k}
				rec.Mark(hook.PoolEvent{Kind: "call", G: 1, Call: si, Class: "panic"})
				res := protect(func() string { return c.run(pr) })
				rec.Mark(hook.PoolEvent{Kind: "recover", G: 1, Call: si})
				if strings.HasPrefix(res, "PANIC") {
					npanics++
				}
				executed = append(executed, fmt.Sprintf("panic@%d/%d %s", k, c.NFmt, c.Desc))
				continue
			}
			cl := cat[step]
			if len(cl) == 0 {
				continue
			}
			c := cl[rot[step]%len(cl)]
			rot[step]++
			rec.Mark(hook.PoolEvent{Kind: "call", G: 1, Call: si, Class: c.Class})
			got := protect(func() string { return c.run(strfmt.Default) })
			rec.Mark(hook.PoolEvent{Kind: "ret", G: 1, Call: si, Class: c.Class, Out: digest(got), Ref: digest(c.Ref)})
			ncalls++
			executed = append(executed, c.Class)
			distinctPairs[prevClass+">"+c.Class] = struct{}{}
			prevClass = c.Class
			if got != c.Ref && len(mismatches) < 20 {
				mismatches = append(mismatches, enc.M{"history": hi, "step": si, "class": c.Class, "call": c.Desc, "got": got, "alone": c.Ref, "executed": append([]string{}, executed...)})
			}
		}
		rec.Recording(false)
		evs := rec.Drain()
		for _, e := range evs {
			if err := w.write(poolEventJSON(e), enc.M{"history": hi, "steps": h}); err != nil {
				return err
			}
			inChunk++
		}
		if len(samples) < 2 && len(executed) > 3 {
			samples = append(samples, executed[:minInt(len(executed), 10)])
		}
	}
	w.close()
	_ = time.Now
	return writeJSONFile(filepath.Join(*out, "meta.json"), map[string]interface{}{
		"events": w.n, "calls": ncalls, "panics_injected": npanics, "histories": len(histories), "distinct_nontrivial": len(distinctPairs),
		"samples": samples, "mismatches": mismatches, "full": *full, "redeems": rec.Redeems.Load(), "classes": classes,
	})
}
