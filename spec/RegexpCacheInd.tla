--------------------------- MODULE RegexpCacheInd ---------------------------
(***************************************************************************)
(* Typed restatement of RegexpCache.tla for Apalache (C15, design level):  *)
(* KeyIsSource together with the lock discipline is an INDUCTIVE invariant *)
(* of the cache protocol of rexp.go - for any number of requests, not only  *)
(* within TLC's bounds:                                                     *)
(*   apalache-mc check --cinit=ConstInit --init=Init    --inv=IndInv --length=0   *)
(*   apalache-mc check --cinit=ConstInit --init=IndInit --inv=IndInv --length=1   *)
(* The published map is represented by its key set and a total function    *)
(* from keys to the source text of the stored expression.                   *)
(***************************************************************************)
EXTENDS Integers, FiniteSets
CONSTANTS
  \* @type: Set(Str);
  Gor,
  \* @type: Set(Str);
  Pats,
  \* @type: Set(Str);
  Bad
VARIABLES
  \* @type: Set(Str);
  keys,      \* DOMAIN of the published snapshot
  \* @type: Str -> Str;
  src,       \* source text stored under each key (total function, meaningful on keys)
  \* @type: Str;
  mu,
  \* @type: Str -> Str;
  pc,
  \* @type: Str -> Str;
  req,
  \* @type: Str -> Str;
  rsrc,
  \* @type: Str -> Set(Str);
  snapKeys,
  \* @type: Str -> (Str -> Str);
  snapSrc

ConstInit == Gor = {"g1", "g2", "g3"} /\ Pats = {"p", "q", "bad"} /\ Bad = {"bad"}
PCs == {"idle", "lookup", "compile", "lock", "reload", "store", "unlock"}

Init == /\ keys = {} /\ src = [p \in Pats |-> p] /\ mu = "none"
        /\ pc = [g \in Gor |-> "idle"] /\ req = [g \in Gor |-> "p"] /\ rsrc = [g \in Gor |-> "p"]
        /\ snapKeys = [g \in Gor |-> {}] /\ snapSrc = [g \in Gor |-> [p \in Pats |-> p]]

Call(g) == /\ pc[g] = "idle" /\ \E p \in Pats : req' = [req EXCEPT ![g] = p]
           /\ pc' = [pc EXCEPT ![g] = "lookup"] /\ UNCHANGED <<keys, src, mu, rsrc, snapKeys, snapSrc>>
Lookup(g) == /\ pc[g] = "lookup"
             /\ pc' = [pc EXCEPT ![g] = IF req[g] \in keys THEN "idle" ELSE "compile"]
             /\ UNCHANGED <<keys, src, mu, req, rsrc, snapKeys, snapSrc>>
Compile(g) == /\ pc[g] = "compile"
              /\ IF req[g] \in Bad THEN pc' = [pc EXCEPT ![g] = "idle"] /\ UNCHANGED rsrc
                 ELSE rsrc' = [rsrc EXCEPT ![g] = req[g]] /\ pc' = [pc EXCEPT ![g] = "lock"]
              /\ UNCHANGED <<keys, src, mu, req, snapKeys, snapSrc>>
Lock(g) == /\ pc[g] = "lock" /\ mu = "none" /\ mu' = g /\ pc' = [pc EXCEPT ![g] = "reload"]
           /\ UNCHANGED <<keys, src, req, rsrc, snapKeys, snapSrc>>
Reload(g) == /\ pc[g] = "reload"
             /\ snapKeys' = [snapKeys EXCEPT ![g] = keys] /\ snapSrc' = [snapSrc EXCEPT ![g] = src]
             /\ pc' = [pc EXCEPT ![g] = IF rsrc[g] \in keys THEN "unlock" ELSE "store"]
             /\ UNCHANGED <<keys, src, mu, req, rsrc>>
Store(g) == /\ pc[g] = "store"
            /\ keys' = snapKeys[g] \cup {rsrc[g]}
            /\ src' = [k \in Pats |-> IF k = rsrc[g] THEN rsrc[g] ELSE snapSrc[g][k]]
            /\ pc' = [pc EXCEPT ![g] = "unlock"]
            /\ UNCHANGED <<mu, req, rsrc, snapKeys, snapSrc>>
Unlock(g) == /\ pc[g] = "unlock" /\ mu = g /\ mu' = "none" /\ pc' = [pc EXCEPT ![g] = "idle"]
             /\ UNCHANGED <<keys, src, req, rsrc, snapKeys, snapSrc>>
Next == \E g \in Gor : Call(g) \/ Lookup(g) \/ Compile(g) \/ Lock(g) \/ Reload(g) \/ Store(g) \/ Unlock(g)

TypeOK == /\ keys \in SUBSET Pats /\ src \in [Pats -> Pats] /\ mu \in Gor \cup {"none"}
          /\ pc \in [Gor -> PCs] /\ req \in [Gor -> Pats] /\ rsrc \in [Gor -> Pats]
          /\ snapKeys \in [Gor -> SUBSET Pats] /\ snapSrc \in [Gor -> [Pats -> Pats]]
KeyIsSource == \A k \in keys : src[k] = k
IndInv ==
  /\ TypeOK
  /\ KeyIsSource
  /\ keys \cap Bad = {}
  /\ \A g \in Gor : pc[g] \in {"reload", "store", "unlock"} => mu = g                       \* lock discipline
  /\ \A g \in Gor : pc[g] \in {"lock", "reload", "store", "unlock"} => rsrc[g] = req[g] /\ rsrc[g] \notin Bad
  /\ \A g \in Gor : pc[g] = "store" => (snapKeys[g] = keys /\ \A k \in keys : snapSrc[g][k] = k)  \* the snapshot taken under the lock is current
IndInit == IndInv
=============================================================================
