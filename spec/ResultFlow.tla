----------------------------- MODULE ResultFlow -----------------------------
(***************************************************************************)
(* The life-cycle of pooled *Result objects inside the composition          *)
(* validator (schema_props.go: Validate, validateAnyOf, validateOneOf,      *)
(* validateAllOf, validateNot), transcribed statement by statement in       *)
(* PlusCal.  Every alternative's validation returns a result borrowed from  *)
(* the pool (flagged wantsRedeemOnMerge); Merge puts a flagged operand back *)
(* in the pool; the loops keep, ditch or merge results ("best failure",     *)
(* "first success").  Child verdicts and match counts are arbitrary.        *)
(*                                                                          *)
(* Checked for every outcome of every alternative (NAlt alternatives):      *)
(*   NoDup        no result is in the pool twice (redeemed twice)           *)
(*   NoUseAfter   a result is never read or merged after it was redeemed    *)
(*   NoLeak       when Validate returns, every result it borrowed has been  *)
(*                redeemed, except the one it returns (design extra)        *)
(* ReadAfterMerge = TRUE transcribes the defect class of C04/C05 (a result  *)
(* read after the merge that redeemed it): TLC must then report NoUseAfter. *)
(***************************************************************************)
EXTENDS Integers, Sequences, FiniteSets, TLC
CONSTANTS NAlt,            \* alternatives per keyword
          MaxRes,          \* result objects available
          ReadAfterMerge   \* FALSE = the code; TRUE = allOf counts validity after merging

Res == 1..MaxRes
NoRes == 0

(* --algorithm ResultFlow
variables
  ps = [pool |-> <<>>,                         \* the pool of results (a sequence: duplicates are expressible)
        state |-> [r \in Res |-> "virgin"],    \* virgin | live | pooled
        bad |-> {},                            \* protocol violations observed
        borrowed |-> {}],                      \* results borrowed since Validate was entered
  main = NoRes, keep = NoRes, result = NoRes, best = NoRes, first = NoRes, tmp = NoRes,
  i = 1, validated = 0, valid = FALSE, mc = 0, bestmc = 0, returned = NoRes,
  kw = "anyOf";

define
  \* sync.Pool.Get: the object handed out (the last pooled one, or a new one)
  Pick(P) == IF Len(P.pool) > 0 THEN P.pool[Len(P.pool)]
             ELSE CHOOSE r \in Res : P.state[r] = "virgin" /\ \A q \in Res : P.state[q] = "virgin" => r <= q
  Take(P, v) == [P EXCEPT !.pool = IF Len(P.pool) > 0 THEN SubSeq(P.pool, 1, Len(P.pool) - 1) ELSE P.pool,
                          !.bad = IF P.state[v] = "live" THEN @ \cup {"SharedResult"} ELSE @,
                          !.state[v] = "live",
                          !.borrowed = @ \cup {v}]
  \* RedeemResult: no check whatsoever, exactly like sync.Pool.Put
  Rd(P, v) == IF v = NoRes THEN P
              ELSE [P EXCEPT !.pool = Append(@, v),
                             !.bad = IF P.state[v] # "live" THEN @ \cup {"RedeemOfNonLive"} ELSE @,
                             !.state[v] = "pooled"]
  \* a read or write of the result's fields
  Us(P, v) == IF v = NoRes \/ P.state[v] = "live" THEN P ELSE [P EXCEPT !.bad = @ \cup {"UseAfterRedeem"}]
end define;

begin
Enter:
  main := Pick(ps); ps := Take(ps, main);        \* mainResult = BorrowResult()
  with k \in {"anyOf", "oneOf", "allOf", "not"} do kw := k end with;
Dispatch:
  if kw = "anyOf" then goto AnyStart
  elsif kw = "oneOf" then goto OneStart
  elsif kw = "allOf" then goto AllStart
  else goto NotStart end if;

\* ---------------------------------------------------------------- validateAnyOf
AnyStart:
  keep := Pick(ps); ps := Take(ps, keep); i := 1; best := NoRes;
AnyLoop:
  if i > NAlt then goto AnyEnd end if;
AnyChild:
  result := Pick(ps); ps := Take(ps, result);    \* result := anyOfSchema.Validate(data)
  with v \in BOOLEAN, m \in 0..1 do valid := v; mc := m end with;
AnyKeep:
  tmp := Pick(ps); ps := Take(Us(ps, result), tmp);   \* result.keepRelevantErrors() borrows a new result ...
AnyKeepMerge:
  ps := Rd(Us(Us(ps, keep), tmp), tmp);          \* ... keepResultAnyOf.Merge(it) merges and redeems it
AnyTest:
  if valid then                                  \* result.IsValid()
    ps := Rd(Us(ps, result), best);              \* bestFailures (if any) is ditched
    goto AnySuccess;
  elsif best = NoRes \/ mc > bestmc then
    ps := Rd(Us(ps, result), best);
    goto AnyNewBest;
  else
    ps := Rd(Us(ps, result), result);            \* this result is ditched
    i := i + 1; goto AnyLoop;
  end if;
AnyNewBest:
  best := result; bestmc := mc; i := i + 1; goto AnyLoop;
AnySuccess:
  ps := Rd(Us(Us(Us(ps, keep), main), result), result);    \* keep.cleared(); mainResult.Merge(result)
  goto Finish;
AnyEnd:
  ps := Rd(Us(Us(ps, main), best), best);        \* mainResult.Merge(bestFailures)
  goto Finish;

\* ---------------------------------------------------------------- validateOneOf
OneStart:
  keep := Pick(ps); ps := Take(ps, keep); i := 1; best := NoRes; first := NoRes; validated := 0;
OneLoop:
  if i > NAlt then goto OneEnd end if;
OneChild:
  result := Pick(ps); ps := Take(ps, result);
  with v \in BOOLEAN, m \in 0..1 do valid := v; mc := m end with;
OneKeep:
  tmp := Pick(ps); ps := Take(Us(ps, result), tmp);
OneKeepMerge:
  ps := Rd(Us(Us(ps, keep), tmp), tmp);
OneTest:
  if valid then
    validated := validated + 1;
    if first = NoRes then
      first := result; ps := Us(Us(ps, result), keep);
    else
      ps := Rd(Us(Us(ps, result), keep), result);           \* this result is ditched
    end if;
  elsif validated = 0 /\ (best = NoRes \/ mc > bestmc) then
    ps := Rd(Us(ps, result), best);
    goto OneNewBest;
  else
    ps := Rd(Us(ps, result), result);
  end if;
OneNext:
  i := i + 1; goto OneLoop;
OneNewBest:
  best := result; bestmc := mc; goto OneNext;
OneEnd:
  if validated = 0 then
    ps := Rd(Us(Us(ps, main), best), best);                  \* mainResult.Merge(bestFailures)
  elsif validated = 1 then
    ps := Rd(Rd(Us(Us(ps, main), first), first), best);      \* mainResult.Merge(firstSuccess); the unused best failure is released
  else
    ps := Rd(Rd(Us(Us(ps, main), best), best), first);       \* mainResult.Merge(bestFailures); the unused first success is released
  end if;
  goto Finish;

\* ---------------------------------------------------------------- validateAllOf
AllStart:
  keep := Pick(ps); ps := Take(ps, keep); i := 1; validated := 0;
AllLoop:
  if i > NAlt then goto Finish end if;
AllChild:
  result := Pick(ps); ps := Take(ps, result);
  with v \in BOOLEAN do valid := v end with;
AllKeep:
  tmp := Pick(ps); ps := Take(Us(ps, result), tmp);
AllKeepMerge:
  ps := Rd(Us(Us(ps, keep), tmp), tmp);
AllCountAndMerge:
  if ~ReadAfterMerge then
    ps := Rd(Us(Us(Us(ps, result), main), result), result);  \* if result.IsValid() { validated++ }; mainResult.Merge(result)
  else
    ps := Us(Rd(Us(Us(ps, main), result), result), result);  \* the defect: validity read after the merge that redeemed the result
  end if;
  if valid then validated := validated + 1 end if;
  i := i + 1; goto AllLoop;

\* ---------------------------------------------------------------- validateNot
NotStart:
  result := Pick(ps); ps := Take(ps, result);
  with v \in BOOLEAN do valid := v end with;
NotTest:
  ps := Rd(Us(Us(ps, result), main), result);    \* result.IsValid(); this result is ditched
  goto Finish;

\* ---------------------------------------------------------------- return mainResult.Merge(keepAllOf, keepOneOf, keepAnyOf)
Finish:
  ps := Rd(Us(Us(ps, main), keep), keep);
  returned := main;
end algorithm; *)
\* BEGIN TRANSLATION
VARIABLES pc, ps, main, keep, result, best, first, tmp, i, validated, valid, 
          mc, bestmc, returned, kw

(* define statement *)
Pick(P) == IF Len(P.pool) > 0 THEN P.pool[Len(P.pool)]
           ELSE CHOOSE r \in Res : P.state[r] = "virgin" /\ \A q \in Res : P.state[q] = "virgin" => r <= q
Take(P, v) == [P EXCEPT !.pool = IF Len(P.pool) > 0 THEN SubSeq(P.pool, 1, Len(P.pool) - 1) ELSE P.pool,
                        !.bad = IF P.state[v] = "live" THEN @ \cup {"SharedResult"} ELSE @,
                        !.state[v] = "live",
                        !.borrowed = @ \cup {v}]

Rd(P, v) == IF v = NoRes THEN P
            ELSE [P EXCEPT !.pool = Append(@, v),
                           !.bad = IF P.state[v] # "live" THEN @ \cup {"RedeemOfNonLive"} ELSE @,
                           !.state[v] = "pooled"]

Us(P, v) == IF v = NoRes \/ P.state[v] = "live" THEN P ELSE [P EXCEPT !.bad = @ \cup {"UseAfterRedeem"}]


vars == << pc, ps, main, keep, result, best, first, tmp, i, validated, valid, 
           mc, bestmc, returned, kw >>

Init == (* Global variables *)
        /\ ps = [pool |-> <<>>,
                 state |-> [r \in Res |-> "virgin"],
                 bad |-> {},
                 borrowed |-> {}]
        /\ main = NoRes
        /\ keep = NoRes
        /\ result = NoRes
        /\ best = NoRes
        /\ first = NoRes
        /\ tmp = NoRes
        /\ i = 1
        /\ validated = 0
        /\ valid = FALSE
        /\ mc = 0
        /\ bestmc = 0
        /\ returned = NoRes
        /\ kw = "anyOf"
        /\ pc = "Enter"

Enter == /\ pc = "Enter"
         /\ main' = Pick(ps)
         /\ ps' = Take(ps, main')
         /\ \E k \in {"anyOf", "oneOf", "allOf", "not"}:
              kw' = k
         /\ pc' = "Dispatch"
         /\ UNCHANGED << keep, result, best, first, tmp, i, validated, valid, 
                         mc, bestmc, returned >>

Dispatch == /\ pc = "Dispatch"
            /\ IF kw = "anyOf"
                  THEN /\ pc' = "AnyStart"
                  ELSE /\ IF kw = "oneOf"
                             THEN /\ pc' = "OneStart"
                             ELSE /\ IF kw = "allOf"
                                        THEN /\ pc' = "AllStart"
                                        ELSE /\ pc' = "NotStart"
            /\ UNCHANGED << ps, main, keep, result, best, first, tmp, i, 
                            validated, valid, mc, bestmc, returned, kw >>

AnyStart == /\ pc = "AnyStart"
            /\ keep' = Pick(ps)
            /\ ps' = Take(ps, keep')
            /\ i' = 1
            /\ best' = NoRes
            /\ pc' = "AnyLoop"
            /\ UNCHANGED << main, result, first, tmp, validated, valid, mc, 
                            bestmc, returned, kw >>

AnyLoop == /\ pc = "AnyLoop"
           /\ IF i > NAlt
                 THEN /\ pc' = "AnyEnd"
                 ELSE /\ pc' = "AnyChild"
           /\ UNCHANGED << ps, main, keep, result, best, first, tmp, i, 
                           validated, valid, mc, bestmc, returned, kw >>

AnyChild == /\ pc = "AnyChild"
            /\ result' = Pick(ps)
            /\ ps' = Take(ps, result')
            /\ \E v \in BOOLEAN:
                 \E m \in 0..1:
                   /\ valid' = v
                   /\ mc' = m
            /\ pc' = "AnyKeep"
            /\ UNCHANGED << main, keep, best, first, tmp, i, validated, bestmc, 
                            returned, kw >>

AnyKeep == /\ pc = "AnyKeep"
           /\ tmp' = Pick(ps)
           /\ ps' = Take(Us(ps, result), tmp')
           /\ pc' = "AnyKeepMerge"
           /\ UNCHANGED << main, keep, result, best, first, i, validated, 
                           valid, mc, bestmc, returned, kw >>

AnyKeepMerge == /\ pc = "AnyKeepMerge"
                /\ ps' = Rd(Us(Us(ps, keep), tmp), tmp)
                /\ pc' = "AnyTest"
                /\ UNCHANGED << main, keep, result, best, first, tmp, i, 
                                validated, valid, mc, bestmc, returned, kw >>

AnyTest == /\ pc = "AnyTest"
           /\ IF valid
                 THEN /\ ps' = Rd(Us(ps, result), best)
                      /\ pc' = "AnySuccess"
                      /\ i' = i
                 ELSE /\ IF best = NoRes \/ mc > bestmc
                            THEN /\ ps' = Rd(Us(ps, result), best)
                                 /\ pc' = "AnyNewBest"
                                 /\ i' = i
                            ELSE /\ ps' = Rd(Us(ps, result), result)
                                 /\ i' = i + 1
                                 /\ pc' = "AnyLoop"
           /\ UNCHANGED << main, keep, result, best, first, tmp, validated, 
                           valid, mc, bestmc, returned, kw >>

AnyNewBest == /\ pc = "AnyNewBest"
              /\ best' = result
              /\ bestmc' = mc
              /\ i' = i + 1
              /\ pc' = "AnyLoop"
              /\ UNCHANGED << ps, main, keep, result, first, tmp, validated, 
                              valid, mc, returned, kw >>

AnySuccess == /\ pc = "AnySuccess"
              /\ ps' = Rd(Us(Us(Us(ps, keep), main), result), result)
              /\ pc' = "Finish"
              /\ UNCHANGED << main, keep, result, best, first, tmp, i, 
                              validated, valid, mc, bestmc, returned, kw >>

AnyEnd == /\ pc = "AnyEnd"
          /\ ps' = Rd(Us(Us(ps, main), best), best)
          /\ pc' = "Finish"
          /\ UNCHANGED << main, keep, result, best, first, tmp, i, validated, 
                          valid, mc, bestmc, returned, kw >>

OneStart == /\ pc = "OneStart"
            /\ keep' = Pick(ps)
            /\ ps' = Take(ps, keep')
            /\ i' = 1
            /\ best' = NoRes
            /\ first' = NoRes
            /\ validated' = 0
            /\ pc' = "OneLoop"
            /\ UNCHANGED << main, result, tmp, valid, mc, bestmc, returned, kw >>

OneLoop == /\ pc = "OneLoop"
           /\ IF i > NAlt
                 THEN /\ pc' = "OneEnd"
                 ELSE /\ pc' = "OneChild"
           /\ UNCHANGED << ps, main, keep, result, best, first, tmp, i, 
                           validated, valid, mc, bestmc, returned, kw >>

OneChild == /\ pc = "OneChild"
            /\ result' = Pick(ps)
            /\ ps' = Take(ps, result')
            /\ \E v \in BOOLEAN:
                 \E m \in 0..1:
                   /\ valid' = v
                   /\ mc' = m
            /\ pc' = "OneKeep"
            /\ UNCHANGED << main, keep, best, first, tmp, i, validated, bestmc, 
                            returned, kw >>

OneKeep == /\ pc = "OneKeep"
           /\ tmp' = Pick(ps)
           /\ ps' = Take(Us(ps, result), tmp')
           /\ pc' = "OneKeepMerge"
           /\ UNCHANGED << main, keep, result, best, first, i, validated, 
                           valid, mc, bestmc, returned, kw >>

OneKeepMerge == /\ pc = "OneKeepMerge"
                /\ ps' = Rd(Us(Us(ps, keep), tmp), tmp)
                /\ pc' = "OneTest"
                /\ UNCHANGED << main, keep, result, best, first, tmp, i, 
                                validated, valid, mc, bestmc, returned, kw >>

OneTest == /\ pc = "OneTest"
           /\ IF valid
                 THEN /\ validated' = validated + 1
                      /\ IF first = NoRes
                            THEN /\ first' = result
                                 /\ ps' = Us(Us(ps, result), keep)
                            ELSE /\ ps' = Rd(Us(Us(ps, result), keep), result)
                                 /\ first' = first
                      /\ pc' = "OneNext"
                 ELSE /\ IF validated = 0 /\ (best = NoRes \/ mc > bestmc)
                            THEN /\ ps' = Rd(Us(ps, result), best)
                                 /\ pc' = "OneNewBest"
                            ELSE /\ ps' = Rd(Us(ps, result), result)
                                 /\ pc' = "OneNext"
                      /\ UNCHANGED << first, validated >>
           /\ UNCHANGED << main, keep, result, best, tmp, i, valid, mc, bestmc, 
                           returned, kw >>

OneNext == /\ pc = "OneNext"
           /\ i' = i + 1
           /\ pc' = "OneLoop"
           /\ UNCHANGED << ps, main, keep, result, best, first, tmp, validated, 
                           valid, mc, bestmc, returned, kw >>

OneNewBest == /\ pc = "OneNewBest"
              /\ best' = result
              /\ bestmc' = mc
              /\ pc' = "OneNext"
              /\ UNCHANGED << ps, main, keep, result, first, tmp, i, validated, 
                              valid, mc, returned, kw >>

OneEnd == /\ pc = "OneEnd"
          /\ IF validated = 0
                THEN /\ ps' = Rd(Us(Us(ps, main), best), best)
                ELSE /\ IF validated = 1
                           THEN /\ ps' = Rd(Rd(Us(Us(ps, main), first), first), best)
                           ELSE /\ ps' = Rd(Rd(Us(Us(ps, main), best), best), first)
          /\ pc' = "Finish"
          /\ UNCHANGED << main, keep, result, best, first, tmp, i, validated, 
                          valid, mc, bestmc, returned, kw >>

AllStart == /\ pc = "AllStart"
            /\ keep' = Pick(ps)
            /\ ps' = Take(ps, keep')
            /\ i' = 1
            /\ validated' = 0
            /\ pc' = "AllLoop"
            /\ UNCHANGED << main, result, best, first, tmp, valid, mc, bestmc, 
                            returned, kw >>

AllLoop == /\ pc = "AllLoop"
           /\ IF i > NAlt
                 THEN /\ pc' = "Finish"
                 ELSE /\ pc' = "AllChild"
           /\ UNCHANGED << ps, main, keep, result, best, first, tmp, i, 
                           validated, valid, mc, bestmc, returned, kw >>

AllChild == /\ pc = "AllChild"
            /\ result' = Pick(ps)
            /\ ps' = Take(ps, result')
            /\ \E v \in BOOLEAN:
                 valid' = v
            /\ pc' = "AllKeep"
            /\ UNCHANGED << main, keep, best, first, tmp, i, validated, mc, 
                            bestmc, returned, kw >>

AllKeep == /\ pc = "AllKeep"
           /\ tmp' = Pick(ps)
           /\ ps' = Take(Us(ps, result), tmp')
           /\ pc' = "AllKeepMerge"
           /\ UNCHANGED << main, keep, result, best, first, i, validated, 
                           valid, mc, bestmc, returned, kw >>

AllKeepMerge == /\ pc = "AllKeepMerge"
                /\ ps' = Rd(Us(Us(ps, keep), tmp), tmp)
                /\ pc' = "AllCountAndMerge"
                /\ UNCHANGED << main, keep, result, best, first, tmp, i, 
                                validated, valid, mc, bestmc, returned, kw >>

AllCountAndMerge == /\ pc = "AllCountAndMerge"
                    /\ IF ~ReadAfterMerge
                          THEN /\ ps' = Rd(Us(Us(Us(ps, result), main), result), result)
                          ELSE /\ ps' = Us(Rd(Us(Us(ps, main), result), result), result)
                    /\ IF valid
                          THEN /\ validated' = validated + 1
                          ELSE /\ TRUE
                               /\ UNCHANGED validated
                    /\ i' = i + 1
                    /\ pc' = "AllLoop"
                    /\ UNCHANGED << main, keep, result, best, first, tmp, 
                                    valid, mc, bestmc, returned, kw >>

NotStart == /\ pc = "NotStart"
            /\ result' = Pick(ps)
            /\ ps' = Take(ps, result')
            /\ \E v \in BOOLEAN:
                 valid' = v
            /\ pc' = "NotTest"
            /\ UNCHANGED << main, keep, best, first, tmp, i, validated, mc, 
                            bestmc, returned, kw >>

NotTest == /\ pc = "NotTest"
           /\ ps' = Rd(Us(Us(ps, result), main), result)
           /\ pc' = "Finish"
           /\ UNCHANGED << main, keep, result, best, first, tmp, i, validated, 
                           valid, mc, bestmc, returned, kw >>

Finish == /\ pc = "Finish"
          /\ ps' = Rd(Us(Us(ps, main), keep), keep)
          /\ returned' = main
          /\ pc' = "Done"
          /\ UNCHANGED << main, keep, result, best, first, tmp, i, validated, 
                          valid, mc, bestmc, kw >>

(* Allow infinite stuttering to prevent deadlock on termination. *)
Terminating == pc = "Done" /\ UNCHANGED vars

Next == Enter \/ Dispatch \/ AnyStart \/ AnyLoop \/ AnyChild \/ AnyKeep
           \/ AnyKeepMerge \/ AnyTest \/ AnyNewBest \/ AnySuccess \/ AnyEnd
           \/ OneStart \/ OneLoop \/ OneChild \/ OneKeep \/ OneKeepMerge
           \/ OneTest \/ OneNext \/ OneNewBest \/ OneEnd \/ AllStart \/ AllLoop
           \/ AllChild \/ AllKeep \/ AllKeepMerge \/ AllCountAndMerge \/ NotStart
           \/ NotTest \/ Finish
           \/ Terminating

Spec == Init /\ [][Next]_vars

Termination == <>(pc = "Done")

\* END TRANSLATION

NoDup == \A a, b \in 1..Len(ps.pool) : a # b => ps.pool[a] # ps.pool[b]
NoUseAfter == ps.bad = {}
NoLeak == returned # NoRes => \A r \in ps.borrowed : r = returned \/ ps.state[r] = "pooled"
=============================================================================
