SPECIFICATION SimSpec
CONSTANTS
  Gor = {"g1", "g2", "g3"}
  Pats = {"p", "q", "bad"}
  Bad = {"bad"}
  MaxReq = 2
  Depth = 60
INVARIANT Emit
CHECK_DEADLOCK FALSE
