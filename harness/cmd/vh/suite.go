package main

import (
	"encoding/json"
	"flag"
	"os"
	"path/filepath"
	"strings"

	"github.com/go-openapi/strfmt"
)

func init() { commands["drive-suite"] = driveSuite }

// localRefsOnly tells whether every $ref of the schema points into #/definitions.
func localRefsOnly(s interface{}) bool {
	switch x := s.(type) {
	case map[string]interface{}:
		for k, v := range x {
			if k == "$ref" {
				if r, ok := v.(string); ok && !strings.HasPrefix(r, "#/definitions/") {
					return false
				}
			}
			if k == "enum" {
				continue
			}
			if !localRefsOnly(v) {
				return false
			}
		}
	case []interface{}:
		for _, v := range x {
			if !localRefsOnly(v) {
				return false
			}
		}
	}
	return true
}

// driveSuite turns the repository's labelled draft-4 suite into events carrying the label, so that TLC can
// check the ORACLE (JsonSchema!Valid) against independent labels. This validates the specification, not the code.
func driveSuite(args []string) error {
	fs := flag.NewFlagSet("drive-suite", flag.ExitOnError)
	dir := fs.String("dir", repoRoot()+"/fixtures/jsonschema_suite", "suite directory")
	out := fs.String("out", "", "output directory")
	fs.Parse(args)
	files, _ := filepath.Glob(filepath.Join(*dir, "*.json"))
	opt, _ := filepath.Glob(filepath.Join(*dir, "optional", "*.json"))
	files = append(files, opt...)
	w := newChunkWriter(*out, 0)
	defer w.close()
	skipped := 0
	for _, f := range files {
		base := filepath.Base(f)
		// zeroTerminatedFloats: "1.0 is not an integer" contradicts the property's reading (integer = zero fraction)
		if base == "refRemote.json" || base == "ecmascript-regex.json" || base == "bignum.json" || base == "zeroTerminatedFloats.json" {
			continue
		}
		b, err := os.ReadFile(f)
		if err != nil {
			return err
		}
		var groups []struct {
			Description string          `json:"description"`
			Schema      json.RawMessage `json:"schema"`
			Tests       []struct {
				Description string          `json:"description"`
				Data        json.RawMessage `json:"data"`
				Valid       bool            `json:"valid"`
			} `json:"tests"`
		}
		if err := json.Unmarshal(b, &groups); err != nil {
			return err
		}
		for _, g := range groups {
			sg, err := decodeNumber(g.Schema)
			if err != nil || !localRefsOnly(sg) {
				skipped += len(g.Tests)
				continue
			}
			if m, ok := sg.(map[string]interface{}); ok && m["format"] == "uri" {
				// the labels of the URI group are stricter than the strfmt registry the property delegates to
				skipped += len(g.Tests)
				continue
			}
			if _, isObj := sg.(map[string]interface{}); !isObj {
				skipped += len(g.Tests)
				continue
			}
			for _, t := range g.Tests {
				ev, err := schemaCase(w.n+1, g.Schema, t.Data, strfmt.Default)
				if err != nil {
					return err
				}
				if t.Valid {
					ev["label"] = "valid"
				} else {
					ev["label"] = "invalid"
				}
				if err := w.write(ev, map[string]interface{}{"file": base, "group": g.Description, "test": t.Description, "schema": g.Schema, "inst": t.Data}); err != nil {
					return err
				}
			}
		}
	}
	w.close()
	return writeJSONFile(filepath.Join(*out, "meta.json"), map[string]interface{}{"events": w.n, "skipped": skipped})
}
