"""C12 - validation treats its inputs as read-only."""
from . import common, schemafam


def run(tier, seed):
    check = common.Check("C12", tier, seed, "exploration")
    vh = common.build_vh()
    quick = tier == "quick"
    on_fail = schemafam.simple_violations(check, "frame")
    meta = schemafam.run_traces(check, vh, "frame", ["drive-frame", "-seed", seed, "-n", 400 if quick else 12000], "Trace_Frame", [], on_fail)
    check.coverage["evaluations"] = meta["calls"]
    check.coverage["rule"] = ("deep snapshots (canonical JSON, then the tagged encoding) of the instance, of a reference-free schema, of parameter definitions and values, of doc.Raw() and - for accepted documents "
                              "without self-referential definitions - of the marshalled doc.Spec(), taken before and after AgainstSchema, (recycling) SchemaValidator.Validate, ParamValidator.Validate and "
                              "SpecValidator.Validate in both continue-on-errors modes. Schemas carry defaults, duplicated required names and unsorted arrays on purpose. TLC (Trace_Frame) checks the frame "
                              "condition UNCHANGED on every event and reports the JSON pointer of a difference. distinct = distinct (input kind, call, input) triples; every one is non-trivial.")
    check.assumptions = ["snapshots are taken through encoding/json (map order canonical)", "the specification's contribution is the frame condition; detection rests on the inputs generated"]
    return check.finish()
