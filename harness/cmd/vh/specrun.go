package main

import (
	"encoding/json"
	"flag"
	"fmt"
	"math/rand"
	"os"
	"path/filepath"
	"runtime"
	"runtime/debug"
	"sort"
	"strings"
	"sync"
	"time"

	"github.com/go-openapi/loads"
	"github.com/go-openapi/spec"
	"github.com/go-openapi/strfmt"
	"github.com/go-openapi/validate"

	"verifharness/internal/enc"
	"verifharness/internal/gen"
)

func init() { commands["drive-spec"] = driveSpec }

type interner struct {
	mu  sync.Mutex
	ids map[string]int
	tab []string
}

// normalizeFirstFound: open finding C10/FirstFoundUnresolved - with two or more unresolvable references the message
// "some references could not be resolved in spec. First found: ..." names whichever the expander met first (map order);
// while the finding's witness still flips, such messages are compared up to the reference they name.
var normalizeFirstFound bool

const firstFoundPrefix = "some references could not be resolved in spec. First found:"

func (in *interner) id(s string) int {
	if normalizeFirstFound && strings.HasPrefix(s, firstFoundPrefix) {
		s = firstFoundPrefix + " <one of the unresolvable references>"
	}
	in.mu.Lock()
	defer in.mu.Unlock()
	if in.ids == nil {
		in.ids = map[string]int{}
	}
	if i, ok := in.ids[s]; ok {
		return i
	}
	in.tab = append(in.tab, s)
	in.ids[s] = len(in.tab)
	return len(in.tab)
}

func (in *interner) set(errs []error) []interface{} {
	seen := map[int]bool{}
	var ids []int
	for _, e := range errs {
		if e == nil {
			continue
		}
		i := in.id(e.Error())
		if !seen[i] {
			seen[i] = true
			ids = append(ids, i)
		}
	}
	sort.Ints(ids)
	out := make([]interface{}, len(ids))
	for i := range ids {
		out[i] = ids[i]
	}
	return out
}

// phase recording: the spec validator runs on the calling goroutine
var (
	phaseMu  sync.Mutex
	phaseLog []interface{}
)

func installPhaseHook() {
	validate.VerifOnPhase = func(phase string, errs, warnings *validate.Result) {
		phaseMu.Lock()
		phaseLog = append(phaseLog, enc.M{"p": phase, "e": errs.HasErrors()})
		phaseMu.Unlock()
	}
}

type specRun struct {
	out      string
	errs     []interface{}
	warns    []interface{}
	retwarns []interface{}
	phases   []interface{}
	nerr     int
	circ     bool // a circular ancestry was reported
	panicMsg string
}

// long-lived validators, one per mode, reused across documents ("after any other validations")
var sharedSV = map[bool]*validate.SpecValidator{}

func runSpecOnce(docText []byte, cont bool, in *interner, reg strfmt.Registry) specRun {
	return runSpec(docText, cont, in, reg, false)
}

// formatBearing: members the Swagger 2.0 schema constrains by a format only
func formatBearing(p gen.Ptr) bool {
	if len(p) == 0 {
		return false
	}
	k, _ := p[len(p)-1].(string)
	return k == "url" || k == "email" || k == "authorizationUrl" || k == "tokenUrl"
}

func lastKeyIs(p gen.Ptr, k string) bool {
	if len(p) == 0 {
		return false
	}
	s, _ := p[len(p)-1].(string)
	return s == k
}

// enumerated: members whose values the Swagger 2.0 schema enumerates (case sensitive)
func enumerated(p gen.Ptr) bool {
	if len(p) == 0 {
		return false
	}
	if k, ok := p[len(p)-1].(string); ok {
		return k == "in" || k == "type" || k == "collectionFormat" || k == "swagger"
	}
	if len(p) >= 2 {
		k, _ := p[len(p)-2].(string)
		return k == "schemes"
	}
	return false
}

// primerDoc is an accepted document unlike every generated one: a validator that has just validated it must not let
// anything of it show in the next validation
const primerDoc = `{"swagger":"2.0","info":{"title":"primer","version":"1"},"paths":{"/primer/{pid}":{"get":{"operationId":"primerGet","parameters":[{"name":"pid","in":"path","required":true,"type":"string"},{"name":"n","in":"query","type":"integer","default":3}],"responses":{"200":{"description":"ok","schema":{"$ref":"#/definitions/Primer"},"examples":{"application/json":{"p":"x"}}}}}}},"definitions":{"Primer":{"type":"object","properties":{"p":{"type":"string","default":"d"}}}}}`

// further primers: documents that drive a validator into its less common states (a circular ancestry was found; the
// document could not be expanded)
var primerDocs = []string{primerDoc,
	`{"swagger":"2.0","info":{"title":"primer2","version":"1"},"paths":{"/c":{"get":{"operationId":"pc","responses":{"200":{"description":"ok","schema":{"$ref":"#/definitions/Self"}}}}}},"definitions":{"Self":{"allOf":[{"$ref":"#/definitions/Self"},{"type":"object"}]}}}`,
	`{"swagger":"2.0","info":{"title":"primer3","version":"1"},"paths":{"/r":{"get":{"operationId":"pr","parameters":[{"$ref":"nofile"}],"responses":{"200":{"description":"ok"}}}}}}`,
}

// primed validates a primer with a new validator and returns that validator
func primed(cont bool, reg strfmt.Registry) *validate.SpecValidator {
	d, err := loads.Analyzed(json.RawMessage(primerDocs[usePrimedKind%len(primerDocs)]), "")
	if err != nil {
		return nil
	}
	sv := validate.NewSpecValidator(d.Schema(), reg)
	sv.SetContinueOnErrors(cont)
	_, _ = sv.Validate(d)
	return sv
}

var usePrimed bool
var usePrimedKind int

// useSkipSchemata: the validation runs with Options.SkipSchemataResult (the verdict and the messages do not depend on it)
var useSkipSchemata bool

// interleaved: a rejected document whose default check meets an unresolvable $ref lazily, inside a child validator (the
// library recovers that panic itself with continue-on-errors). It is validated, unrecorded, before every fifth recorded
// validation: whatever it leaves behind in the pools is what the recorded validation borrows.
const interleavedDoc = `{"swagger":"2.0","info":{"title":"i","version":"1"},"paths":{"/n":{"post":{"operationId":"n","parameters":[{"name":"body","in":"body","schema":{"type":"object","default":{"x":{"y":1}},"properties":{"x":{"type":"object","properties":{"y":{"$ref":"#/definitions/Nowhere"}}}}}}],"responses":{"200":{"description":"ok","schema":{"type":"object","example":{"k":[1]},"properties":{"k":{"type":"array","items":{"$ref":"#/definitions/NowhereEither"}}}}}}}}},"definitions":{"A":{"type":"object","properties":{"p":{"$ref":"#/definitions/missing"}},"default":{"p":1}},"B":{"type":"object","properties":{"q":{"type":"object","properties":{"r":{"$ref":"#/definitions/missing2"}}}},"example":{"q":{"r":1}}}}}`

var runSpecCalls int

func interleave(reg strfmt.Registry) {
	runSpecCalls++
	if runSpecCalls%5 != 0 {
		return
	}
	_, _ = guarded(60*time.Second, func() {
		d, err := loads.Analyzed(json.RawMessage(interleavedDoc), "")
		if err != nil {
			return
		}
		sv := validate.NewSpecValidator(d.Schema(), reg)
		sv.SetContinueOnErrors(true)
		_, _ = sv.Validate(d)
	})
}

func runSpec(docText []byte, cont bool, in *interner, reg strfmt.Registry, reuse bool) specRun {
	var res specRun
	interleave(reg)
	phaseMu.Lock()
	phaseLog = nil
	phaseMu.Unlock()
	st, pv := guarded(240*time.Second, func() {
		d, err := loads.Analyzed(json.RawMessage(docText), "")
		if err != nil {
			res.out = "loaderr"
			return
		}
		var sv *validate.SpecValidator
		if usePrimed {
			sv = primed(cont, reg)
			phaseMu.Lock()
			phaseLog = nil // the primer's phases are not part of this run
			phaseMu.Unlock()
		}
		if sv != nil {
			// a validator that has just validated another document
		} else if reuse && sharedSV[cont] != nil {
			sv = sharedSV[cont]
		} else {
			sv = validate.NewSpecValidator(d.Schema(), reg)
			sv.SetContinueOnErrors(cont)
			if reuse {
				sharedSV[cont] = sv
			}
		}
		if useSkipSchemata {
			sv.Options.SkipSchemataResult = true
		}
		errs, warns := sv.Validate(d)
		if errs == nil || warns == nil {
			res.out = "nilresult"
			return
		}
		res.out = "returned"
		res.errs, res.warns, res.retwarns = in.set(errs.Errors), in.set(errs.Warnings), in.set(warns.Errors)
		res.nerr = len(errs.Errors)
		for _, e := range errs.Errors {
			if strings.Contains(e.Error(), "has circular ancestry") {
				res.circ = true
			}
		}
	})
	if st != "" {
		res.out = st
		res.panicMsg = fmt.Sprint(pv)
	}
	phaseMu.Lock()
	res.phases = append([]interface{}{}, phaseLog...)
	phaseMu.Unlock()
	if res.errs == nil {
		res.errs, res.warns, res.retwarns = []interface{}{}, []interface{}{}, []interface{}{}
	}
	return res
}

// swaggerBundle encodes the official Swagger 2.0 schema, with the draft-04 fragments it references, as ONE tagged
// root schema (definitions = every referenced fragment). The facts context is returned for encoding documents.
func swaggerBundle(reg strfmt.Registry) (enc.M, *enc.Ctx) {
	sb, _ := json.Marshal(spec.MustLoadSwagger20Schema())
	db, _ := json.Marshal(spec.MustLoadJSONSchemaDraft04())
	S, _ := decodeNumber(sb)
	D, _ := decodeNumber(db)
	ctx := &enc.Ctx{Reg: reg}
	ctx.Collect(S)
	ctx.Collect(D)
	type key struct{ ns, ptr string }
	var names []key
	index := map[key]bool{}
	mk := func(ns string) func(string) string {
		return func(r string) string {
			k := key{ns, r}
			if strings.HasPrefix(r, "http://json-schema.org/draft-04/schema") {
				frag := ""
				if i := strings.IndexByte(r, '#'); i >= 0 {
					frag = r[i:]
				}
				if frag == "" {
					frag = "#"
				}
				k = key{"D", frag}
			}
			if !index[k] {
				index[k] = true
				names = append(names, k)
			}
			return enc.Pct(k.ns + ":" + k.ptr)
		}
	}
	resolve := func(doc interface{}, ptr string) map[string]interface{} {
		cur := doc
		for _, seg := range strings.Split(strings.TrimPrefix(ptr, "#"), "/") {
			if seg == "" {
				continue
			}
			seg = strings.ReplaceAll(strings.ReplaceAll(seg, "~1", "/"), "~0", "~")
			cur = cur.(map[string]interface{})[seg]
		}
		m, _ := cur.(map[string]interface{})
		return m
	}
	ctx.RefMap = mk("S")
	root := ctx.Schema(S.(map[string]interface{}))
	dk, dv := []interface{}{}, []interface{}{}
	for i := 0; i < len(names); i++ {
		k := names[i]
		doc := S
		if k.ns == "D" {
			doc = D
		}
		ctx.RefMap = mk(k.ns)
		dk = append(dk, enc.Pct(k.ns+":"+k.ptr))
		dv = append(dv, ctx.Schema(resolve(doc, k.ptr)))
	}
	root["dk"], root["dv"] = dk, dv
	ctx.RefMap = nil
	return root, ctx
}

func loadBases(fixtures bool) []string {
	bases := append([]string{}, gen.BaseDocs...)
	bases = append(bases, gen.FrameDocs...)
	if fixtures {
		files, _ := filepath.Glob(repoRoot() + "/fixtures/validation/*.json")
		y, _ := filepath.Glob(repoRoot() + "/fixtures/validation/*.yaml")
		files = append(files, y...)
		p, _ := filepath.Glob(repoRoot() + "/fixtures/petstore/*.json")
		files = append(files, p...)
		sort.Strings(files)
		for _, f := range files {
			st, err := os.Stat(f)
			if err != nil || st.Size() > 40000 || strings.Contains(f, "donotload") || strings.Contains(f, "expected_messages") {
				continue
			}
			func() {
				defer func() { recover() }()
				d, err := loads.Spec(f)
				if err == nil {
					bases = append(bases, string(d.Raw()))
				}
			}()
		}
	}
	return bases
}

// driveSpec validates documents (bases and structural edits of them) in both continue-on-errors modes, possibly
// several times, and records one "specrun" event per run: outcome, error / warning sets (interned), the separately
// returned warnings and the phase trace observed through the verifPhase hook.
func driveSpec(args []string) error {
	fs := flag.NewFlagSet("drive-spec", flag.ExitOnError)
	seed := fs.Int64("seed", 1, "seed")
	nedits := fs.Int("edits", 100, "edited documents per base (0 = every single edit)")
	nbases := fs.Int("bases", 3, "number of base documents (0 = all, fixtures included)")
	repeat := fs.Int("repeat", 1, "validate each document this many times per mode (C10)")
	raw := fs.Bool("raw", false, "attach the tagged raw document and write the Swagger schema bundle (C02)")
	double := fs.Float64("double", 0, "probability of a second edit")
	extra := fs.String("docs", "", "file with further documents, one JSON per line (validated unedited)")
	out := fs.String("out", "", "output directory")
	shard := fs.String("shard", "0/1", "k/n: handle documents with index mod n = k")
	onlyCrashed := fs.Bool("only-crashed", false, "report the validations listed in -crashed and run nothing")
	nff := fs.Bool("normalize-first-found", false, "compare 'First found' messages up to the reference they name (open finding C10/FirstFoundUnresolved, while live)")
	crashed := fs.String("crashed", "", "comma separated <doc index>:<mode>:<how> of validations that killed (or hung) an earlier attempt of this run: they are reported, not run again")
	fs.Parse(args)
	// A validation that never returns or that ends the process with a fatal error (stack overflow) cannot be recovered from in
	// process. Protocol: the document and mode being validated are noted in current.txt first; a hang ends the process at once
	// (exit 5) and a fatal error ends it anyway; the caller starts the run again with that validation listed in -crashed.
	normalizeFirstFound = *nff
	debug.SetMaxStack(192 << 20)
	// one P and no automatic collection: what a validation leaves in the sync.Pools (for instance after a panic that the
	// library recovered itself) is what the next validation of the run borrows; memory is reclaimed every few documents
	runtime.GOMAXPROCS(1)
	// rare collections (the heap may grow fivefold between two of them): a sync.Pool keeps its content over one collection,
	// so what a validation leaves behind is still there for the next ones. (No collection at all, bounded by a memory limit,
	// made the collector thrash on the large fixture documents of the thorough tier: validations then took minutes and were
	// taken for hangs - a false alarm of the machinery, corrected.)
	debug.SetGCPercent(400)
	debug.SetMemoryLimit(6 << 30) // measured: a shard of the thorough tier reached 20 GB without it; the live heap stays far below
	crashedHow := map[string]string{}
	for _, c := range strings.Split(*crashed, ",") {
		if parts := strings.Split(c, ":"); len(parts) == 3 {
			crashedHow[parts[0]+":"+parts[1]] = parts[2]
		}
	}
	var sk, sn int
	fmt.Sscanf(*shard, "%d/%d", &sk, &sn)
	r := rand.New(rand.NewSource(*seed))
	reg := strfmt.Default
	installPhaseHook()
	in := &interner{}
	if err := os.MkdirAll(*out, 0o755); err != nil {
		return err
	}
	var bundleCtx *enc.Ctx
	if *raw {
		var bundle enc.M
		bundle, bundleCtx = swaggerBundle(reg)
		b, err := marshalASCII(bundle)
		if err != nil {
			return err
		}
		if err := os.WriteFile(filepath.Join(*out, "swagger.ndjson"), append(b, '\n'), 0o644); err != nil {
			return err
		}
	}
	bases := loadBases(*nbases == 0 || *nbases > 5)
	if *nbases > 0 && *nbases < len(bases) {
		bases = bases[:*nbases]
	}
	if *nbases < 0 { // only the documents given with -docs (witness runs)
		bases = nil
	}
	type docv struct {
		text []byte
		base int
		edit string
	}
	var docs []docv
	for bi, b := range bases {
		var doc interface{}
		if json.Unmarshal([]byte(b), &doc) != nil {
			continue
		}
		docs = append(docs, docv{[]byte(b), bi, "(unedited)"})
		edits := gen.AllEdits(doc, r)
		if *nedits > 0 && *nedits < len(edits) {
			// sampled tiers always keep the rare edits that only apply at a few pointers (next to an existing $ref)
			var always, rest []gen.Edit
			for _, e := range edits {
				if e.Kind == "ref-xsibling" || e.Kind == "name-dotted" || e.Kind == "dup-into-array" || (e.Kind == "blank" && formatBearing(e.At)) || (e.Kind == "case-flip" && enumerated(e.At)) || ((e.Kind == "rename-empty" || e.Kind == "rename-dotted" || e.Kind == "blank") && lastKeyIs(e.At, "name")) {
					always = append(always, e)
				} else {
					rest = append(rest, e)
				}
			}
			r.Shuffle(len(rest), func(i, j int) { rest[i], rest[j] = rest[j], rest[i] })
			edits = append(always, rest[:*nedits]...)
		}
		for _, e := range edits {
			d2 := gen.Apply(doc, e)
			if d2 == nil {
				continue
			}
			name := e.String()
			if r.Float64() < *double {
				e2s := gen.AllEdits(d2, r)
				e2 := e2s[r.Intn(len(e2s))]
				if d3 := gen.Apply(d2, e2); d3 != nil {
					d2, name = d3, name+" ; "+e2.String()
				}
			}
			t, _ := json.Marshal(d2)
			docs = append(docs, docv{t, bi, name})
		}
	}
	// hand-written rejected documents: always part of the universe, in every tier
	for bi, b := range gen.BadDocs {
		if *nbases < 0 {
			break
		}
		docs = append(docs, docv{[]byte(b), -2 - bi, "(rejected document)"})
	}
	for _, l := range readLines(*extra) {
		docs = append(docs, docv{[]byte(l), -1, "(given)"})
	}
	w := newChunkWriter(*out, 0)
	defer w.close()
	inChunk := 0
	slowDocs := 0
	distinct := map[string]struct{}{}
	var samples []interface{}
	runs, loaded := 0, 0
	outcomes := map[string]int{}
	for di, d := range docs {
		if sn > 1 && di%sn != sk {
			continue
		}
		if w.ev == nil || inChunk >= 300 { // chunks are cut at document boundaries: all runs of a document stay together
			if err := w.open(); err != nil {
				return err
			}
			inChunk = 0
		}
		var rawEnc enc.M
		if *raw {
			g, err := decodeNumber(d.text)
			if err != nil {
				continue
			}
			rawEnc = bundleCtx.Value(g)
		}
		for _, cont := range []bool{false, true} {
			modeName := map[bool]string{false: "stop", true: "cont"}[cont]
			if how, dead := crashedHow[fmt.Sprintf("%d:%s", di, modeName)]; dead {
				runs++
				outcomes[how]++
				ev := enc.M{"ev": "specrun", "doc": di + 1, "mode": modeName, "rep": 0, "out": how, "errs": []interface{}{}, "warns": []interface{}{}, "retwarns": []interface{}{},
					"phases": []interface{}{}, "accepted": false, "circ": false}
				if *raw {
					ev["raw"] = rawEnc
				}
				input := enc.M{"base": d.base, "edit": d.edit, "mode": modeName, "doc": json.RawMessage(d.text), "outcome": how,
					"panic": "this validation ended the driver process in an earlier attempt of the run (" + how + "); it was not run again"}
				if err := w.write(ev, input); err != nil {
					return err
				}
				inChunk++
				continue
			}
			if *onlyCrashed {
				continue
			}
			_ = os.WriteFile(filepath.Join(*out, "current.txt"), []byte(fmt.Sprintf("%d:%s", di, modeName)), 0o644)
			nrep := *repeat
			if *raw {
				nrep++ // one more validation, with the skip-schemata option
			}
			for rep := 0; rep < nrep; rep++ {
				useSkipSchemata = *raw && rep == nrep-1
				// with repetitions, the last one goes through a validator instance reused across documents
				// ... and the one before through a validator that has just validated an unrelated accepted document
				usePrimed = *repeat > 2 && rep == *repeat-2
				usePrimedKind = 0
				if *repeat > 3 && rep == *repeat-3 {
					usePrimed, usePrimedKind = true, 1+di%2
				}
				t0 := time.Now()
				res := runSpec(d.text, cont, in, reg, *repeat > 1 && rep == *repeat-1)
				usePrimed, useSkipSchemata = false, false
				slow := time.Since(t0) > 20*time.Second
				if res.out == "loaderr" {
					break
				}
				if res.out == "hang" {
					// the abandoned goroutine is still running and may end the process at any later point: stop here
					w.close()
					_ = os.WriteFile(filepath.Join(*out, "current.txt"), []byte(fmt.Sprintf("%d:%s:hang", di, modeName)), 0o644)
					os.Exit(5)
				}
				runs++
				outcomes[res.out]++
				mode := "stop"
				if cont {
					mode = "cont"
				}
				ev := enc.M{"ev": "specrun", "doc": di + 1, "mode": mode, "rep": rep, "out": res.out, "errs": res.errs, "warns": res.warns, "retwarns": res.retwarns,
					"phases": res.phases, "accepted": res.out == "returned" && res.nerr == 0, "circ": res.circ}
				if *raw && (rep == 0 || rep == nrep-1) {
					ev["raw"] = rawEnc
				}
				input := enc.M{"base": d.base, "edit": d.edit, "mode": mode, "doc": json.RawMessage(d.text), "outcome": res.out}
				if res.panicMsg != "" {
					input["panic"] = res.panicMsg
				}
				if err := w.write(ev, input); err != nil {
					return err
				}
				inChunk++
				if rep == 0 && !cont {
					loaded++
					distinct[digest(string(d.text))] = struct{}{}
					if len(samples) < 4 && loaded%37 == 0 {
						samples = append(samples, enc.M{"base": d.base, "edit": d.edit, "outcome": res.out, "errors": len(res.errs)})
					}
				}
				if slow && rep < nrep-1 {
					// a document whose validation takes this long (it did return) is validated once per mode: repeating it
					// would keep one shard busy for the better part of an hour
					slowDocs++
					break
				}
			}
		}
	}
	w.close()
	_ = os.WriteFile(filepath.Join(*out, "messages.json"), mustJSON(in.tab), 0o644)
	return writeJSONFile(filepath.Join(*out, "meta.json"), map[string]interface{}{"events": w.n, "runs": runs, "documents": loaded, "distinct_nontrivial": len(distinct),
		"samples": samples, "outcomes": outcomes, "slow_document_modes": slowDocs})
}

func mustJSON(v interface{}) []byte {
	b, _ := json.Marshal(v)
	return b
}
