----------------------------- MODULE MC_Result -----------------------------
EXTENDS Result
CONSTANTS MaxMC
Bounded == \A r \in RIds : res[r].mc <= MaxMC
=============================================================================
