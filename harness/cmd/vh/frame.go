package main

import (
	"encoding/json"
	"flag"
	"math/rand"
	"path/filepath"
	"sort"
	"strings"

	"github.com/go-openapi/loads"
	"github.com/go-openapi/spec"
	"github.com/go-openapi/strfmt"
	"github.com/go-openapi/validate"

	"verifharness/internal/enc"
	"verifharness/internal/gen"
)

func init() { commands["drive-frame"] = driveFrame }

func tagged(jsonText []byte) enc.M {
	v, err := decodeNumber(jsonText)
	if err != nil {
		return enc.M{"t": "str", "x": "undecodable", "n": 0, "m": []interface{}{}, "fm": []interface{}{}}
	}
	ctx := &enc.Ctx{}
	return ctx.Value(v)
}

func hasSelfRef(doc string) bool {
	// a definition that (transitively) references itself: the reference expander rewrites those in place by design
	var d struct {
		Definitions map[string]json.RawMessage `json:"definitions"`
	}
	_ = json.Unmarshal([]byte(doc), &d)
	refs := map[string][]string{}
	for name, raw := range d.Definitions {
		for _, part := range strings.Split(string(raw), `"$ref"`)[1:] {
			i := strings.Index(part, `"#/definitions/`)
			if i < 0 {
				continue
			}
			rest := part[i+len(`"#/definitions/`):]
			if j := strings.IndexByte(rest, '"'); j >= 0 {
				refs[name] = append(refs[name], rest[:j])
			}
		}
	}
	var reach func(from, target string, seen map[string]bool) bool
	reach = func(from, target string, seen map[string]bool) bool {
		for _, n := range refs[from] {
			if n == target {
				return true
			}
			if !seen[n] {
				seen[n] = true
				if reach(n, target, seen) {
					return true
				}
			}
		}
		return false
	}
	for name := range d.Definitions {
		if reach(name, name, map[string]bool{}) {
			return true
		}
	}
	return false
}

// driveFrame takes deep snapshots of every input before and after each call (C12).
// requireDefaulted lists, in the required keyword of every object schema, some of the properties that have a default.
func requireDefaulted(r *rand.Rand, s map[string]interface{}) {
	if props, ok := s["properties"].(map[string]interface{}); ok {
		var names []string
		for k := range props {
			names = append(names, k)
		}
		sort.Strings(names)
		for _, k := range names {
			ps, _ := props[k].(map[string]interface{})
			if ps == nil {
				continue
			}
			if _, has := ps["default"]; has && r.Intn(3) > 0 {
				req, _ := s["required"].([]interface{})
				s["required"] = append(req, k)
			}
			requireDefaulted(r, ps)
		}
	}
	for _, k := range []string{"items", "additionalProperties", "not"} {
		if sub, ok := s[k].(map[string]interface{}); ok {
			requireDefaulted(r, sub)
		}
	}
	for _, k := range []string{"allOf", "anyOf", "oneOf"} {
		if l, ok := s[k].([]interface{}); ok {
			for _, e := range l {
				if sub, ok := e.(map[string]interface{}); ok {
					requireDefaulted(r, sub)
				}
			}
		}
	}
	if pp, ok := s["patternProperties"].(map[string]interface{}); ok {
		for _, e := range pp {
			if sub, ok := e.(map[string]interface{}); ok {
				requireDefaulted(r, sub)
			}
		}
	}
}

// dropMembers removes members of the objects of an instance at random, at every depth.
func dropMembers(r *rand.Rand, v interface{}) interface{} {
	switch x := v.(type) {
	case map[string]interface{}:
		var names []string
		for k := range x {
			names = append(names, k)
		}
		sort.Strings(names)
		for _, k := range names {
			if r.Intn(2) == 0 {
				delete(x, k)
			} else {
				x[k] = dropMembers(r, x[k])
			}
		}
	case []interface{}:
		for i := range x {
			x[i] = dropMembers(r, x[i])
		}
	}
	return v
}

// expandedSpecJSON is the observation the property names for the parsed specification: the FULLY EXPANDED document. The
// library expands non-recursive references in place in some positions (e.g. below a definition that carries a default):
// two parsed specifications are the same when their full expansions are.
func expandedSpecJSON(sw *spec.Swagger) []byte {
	b, err := json.Marshal(sw)
	if err != nil {
		return []byte("marshal error: " + err.Error())
	}
	var c spec.Swagger
	if err := json.Unmarshal(b, &c); err != nil {
		return b
	}
	if err := spec.ExpandSpec(&c, &spec.ExpandOptions{}); err != nil {
		return b
	}
	out, _ := json.Marshal(&c)
	return out
}

func driveFrame(args []string) error {
	fs := flag.NewFlagSet("drive-frame", flag.ExitOnError)
	seed := fs.Int64("seed", 1, "seed")
	n := fs.Int("n", 500, "schema cases")
	docsFile := fs.String("docs", "", "optional file with further documents, one JSON document per line")
	out := fs.String("out", "", "output directory")
	fs.Parse(args)
	r := rand.New(rand.NewSource(*seed))
	reg := strfmt.Default
	w := newChunkWriter(*out, 1500)
	defer w.close()
	distinct := map[string]struct{}{}
	var samples []interface{}
	calls := 0
	emit := func(what, callName string, pre, post []byte, small bool, input enc.M) error {
		ev := enc.M{"ev": "frame", "what": what, "call": callName, "predigest": digest(string(pre)), "postdigest": digest(string(post))}
		if small {
			ev["pre"], ev["post"] = tagged(pre), tagged(post)
		}
		calls++
		distinct[digest(what, callName, string(pre))] = struct{}{}
		return w.write(ev, input)
	}
	for i := 0; i < *n; i++ {
		var s gen.M
		if i%3 == 0 {
			s = gen.NestingSchema(r, 3)
		} else {
			s = gen.RSchema(r, 3, &gen.SchemaOpts{Format: true, Defaults: true}) // no $ref: the claim excludes references
		}
		if i%4 == 0 { // duplicated names in required, unsorted enums
			s["required"] = []interface{}{gen.Keys[r.Intn(3)], gen.Keys[r.Intn(3)], gen.Keys[r.Intn(len(gen.Keys))], gen.Keys[r.Intn(len(gen.Keys))]}
		}
		if i%11 == 0 { // a pattern that is not a valid RE2 expression next to valid ones (the keyword is the caller's map)
			pp, _ := s["patternProperties"].(map[string]interface{})
			if pp == nil {
				pp = map[string]interface{}{}
				s["patternProperties"] = pp
			}
			pp["^(?!name).+$"] = map[string]interface{}{"type": "string"}
			pp["^a"] = map[string]interface{}{}
		}
		if i%2 == 0 { // required members that carry a default, at every level (and instances that omit them)
			requireDefaulted(r, s)
		}
		st, _ := json.Marshal(s)
		for j := 0; j < 2; j++ {
			inst := gen.InstFor(r, s, nil, 4, 0.15)
			if i%2 == 0 && j == 1 {
				inst = dropMembers(r, inst)
			}
			it, _ := json.Marshal(inst)
			for _, how := range []string{"AgainstSchema", "SchemaValidator.Validate", "SchemaValidator(recycle).Validate"} {
				var sch spec.Schema
				if json.Unmarshal(st, &sch) != nil {
					continue
				}
				data, _ := decodeFloat(it)
				preS, _ := json.Marshal(&sch)
				preI, _ := json.Marshal(data)
				protect(func() string {
					switch how {
					case "AgainstSchema":
						_ = validate.AgainstSchema(&sch, data, reg)
					case "SchemaValidator.Validate":
						_ = validate.NewSchemaValidator(&sch, nil, "", reg).Validate(data)
					default:
						_ = validate.NewSchemaValidator(&sch, nil, "", reg, validate.WithRecycleValidators(true)).Validate(data)
					}
					return ""
				})
				postS, _ := json.Marshal(&sch)
				postI, _ := json.Marshal(data)
				in := enc.M{"schema": json.RawMessage(st), "inst": json.RawMessage(it), "call": how}
				if err := emit("schema", how, preS, postS, true, in); err != nil {
					return err
				}
				if err := emit("instance", how, preI, postI, true, in); err != nil {
					return err
				}
			}
			if len(samples) < 3 && i%50 == 0 {
				samples = append(samples, enc.M{"schema": json.RawMessage(st), "instance": json.RawMessage(it)})
			}
		}
		// parameters and headers: definition and value
		def := gen.SimpleDef(r, 3)
		if r.Intn(2) == 0 {
			def["uniqueItems"] = true
		}
		def["name"], def["in"] = "p", "query"
		dt, _ := json.Marshal(def)
		val := gen.SimpleValue(r, def, 0.1)
		var p spec.Parameter
		if json.Unmarshal(dt, &p) == nil {
			preD, _ := json.Marshal(&p)
			preV, _ := json.Marshal(val)
			protect(func() string { _ = validate.NewParamValidator(&p, reg).Validate(val); return "" })
			postD, _ := json.Marshal(&p)
			postV, _ := json.Marshal(val)
			in := enc.M{"param": json.RawMessage(dt), "value": json.RawMessage(preV)}
			if err := emit("parameter", "ParamValidator.Validate", preD, postD, true, in); err != nil {
				return err
			}
			if err := emit("instance", "ParamValidator.Validate", preV, postV, true, in); err != nil {
				return err
			}
		}
	}
	// whole specifications: raw bytes always; parsed specification for accepted documents without self-referential definitions
	docs := append([]string{}, gen.BaseDocs...)
	docs = append(docs, gen.BadDocs...)
	docs = append(docs, gen.FrameDocs...)
	if *docsFile != "" {
		for _, d := range readLines(*docsFile) {
			docs = append(docs, d)
		}
	}
	for _, d := range docs {
		for _, cont := range []bool{false, true} {
			doc, err := loads.Analyzed(json.RawMessage(d), "")
			if err != nil {
				continue
			}
			preRaw := append([]byte{}, doc.Raw()...)
			preSpec := expandedSpecJSON(doc.Spec())
			accepted := false
			protect(func() string {
				sv := validate.NewSpecValidator(doc.Schema(), reg)
				sv.SetContinueOnErrors(cont)
				errs, _ := sv.Validate(doc)
				accepted = errs.IsValid()
				return ""
			})
			postRaw := doc.Raw()
			postSpec := expandedSpecJSON(doc.Spec())
			in := enc.M{"doc": json.RawMessage(d), "continueOnErrors": cont}
			if err := emit("docRaw", "SpecValidator.Validate", preRaw, postRaw, len(d) < 6000, in); err != nil {
				return err
			}
			if accepted && !hasSelfRef(d) {
				if err := emit("docSpec", "SpecValidator.Validate", preSpec, postSpec, len(d) < 6000, in); err != nil {
					return err
				}
			}
		}
	}
	w.close()
	return writeJSONFile(filepath.Join(*out, "meta.json"), map[string]interface{}{"events": w.n, "calls": calls, "distinct_nontrivial": len(distinct), "samples": samples})
}
