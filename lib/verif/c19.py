"""C19 - pruning removes exactly the members no schema describes."""
from . import c18


def run(tier, seed):
    return c18.run(tier, seed, what="prune", prop="C19")
