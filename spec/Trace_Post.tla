------------------------------ MODULE Trace_Post ------------------------------
(***************************************************************************)
(* C18 / C19 trace specification: events of kind "post".  Each event is a   *)
(* VALID (schema, instance) pair validated with a long-lived validator,     *)
(* followed by post.ApplyDefaults (result: defaulted) or post.Prune         *)
(* (result: pruned; pruned2 = validating and pruning the pruned data again).*)
(***************************************************************************)
EXTENDS Json, Sequences, Integers, FiniteSets, Post
CONSTANT OpenDevs
Trace == ndJsonDeserialize("events.ndjson")
VARIABLES l, fails
vars == <<l, fails>>
F(k, ev, clause, want, got) == [l |-> k, n |-> ev.n, clause |-> clause, want |-> want, got |-> got, dev |-> ""]

Check(ev, k) ==
  LET known == SeqToSet(ev.known)
      ideal == Valid(ev.root, known, {}, ev.root, ev.i)
  IN IF ~ideal \/ ev.verdict # "valid" THEN {}     \* both statements are about valid data only (verdicts are C01's business)
     ELSE
     (IF "defaulted" \in DOMAIN ev /\ ~Defaulted(ev.root, known, {ev.root}, ev.i, ev.defaulted)
        THEN {F(k, ev, "C18: the defaulted instance is not an acceptable result", "members with an applicable default filled, others untouched", "differs")} ELSE {})
     \cup (IF "pruned" \in DOMAIN ev /\ ~Pruned(ev.root, known, {ev.root}, ev.i, ev.pruned)
        THEN {F(k, ev, "C19: the pruned instance is not an acceptable result", "exactly the described members remain, unchanged", "differs")} ELSE {})
     \cup (IF "pruned2" \in DOMAIN ev /\ ~UsesAlternatives(ev.root) /\ ~JsonEq(ev.pruned, ev.pruned2)
        THEN {F(k, ev, "C19: pruning is not idempotent (no anyOf/oneOf involved)", "pruned again = pruned", "differs")} ELSE {})

Init == l = 1 /\ fails = {}
Next == /\ l <= Len(Trace)
        /\ l' = l + 1
        /\ fails' = fails \cup Check(Trace[l], l)
Spec == Init /\ [][Next]_vars
RECURSIVE SetToSeq(_)
SetToSeq(S) == IF S = {} THEN <<>> ELSE LET x == CHOOSE x \in S : TRUE IN <<x>> \o SetToSeq(S \ {x})
Done == l = Len(Trace) + 1 =>
          /\ ndJsonSerialize("fails.ndjson", SetToSeq(fails))
          /\ PrintT(<<"TRACE-DONE", Len(Trace), Cardinality(fails)>>)
=============================================================================
