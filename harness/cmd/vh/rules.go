package main

import (
	"encoding/json"
	"flag"
	"fmt"
	"math/rand"
	"path/filepath"
	"strings"
	"time"

	"github.com/go-openapi/loads"
	"github.com/go-openapi/strfmt"
	"github.com/go-openapi/validate"

	"verifharness/internal/enc"
	"verifharness/internal/gen"
)

func init() { commands["drive-rules"] = driveRules }

// driveRules: abstract documents assembled from well-formed parts, altered by rule-breaking / rule-preserving edits,
// rendered to Swagger JSON and validated under the four option combinations (C03).
func driveRules(args []string) error {
	fs := flag.NewFlagSet("drive-rules", flag.ExitOnError)
	seed := fs.Int64("seed", 1, "seed")
	n := fs.Int("n", 100, "base documents")
	shard := fs.String("shard", "0/1", "k/n")
	keyword := fs.Bool("keyword-witness", false, "emit only the witness of the KeywordNamedMember finding")
	out := fs.String("out", "", "output directory")
	fs.Parse(args)
	var sk, sn int
	fmt.Sscanf(*shard, "%d/%d", &sk, &sn)
	r := rand.New(rand.NewSource(*seed))
	reg := strfmt.Default
	w := newChunkWriter(*out, 600)
	defer w.close()
	distinct := map[string]struct{}{}
	editsSeen := map[string]int{}
	var samples []interface{}
	runs := 0
	one := func(d *gen.ADoc) error {
		doc := d.Render()
		text, _ := json.Marshal(doc)
		abstract := d.Abstract()
		distinct[digest(string(text))] = struct{}{}
		for _, e := range d.Edits {
			editsSeen[e]++
		}
		for _, cont := range []bool{false, true} {
			for si, strict := range []bool{true, false, true} {
				// the third run leaves the validator's options alone: documented defaults (strict path uniqueness on), the
				// continue-on-errors mode coming from the package-level setter
				viaDefaults := si == 2
				outc, haserr, msgs := "returned", false, []string{}
				st, pv := guarded(60*time.Second, func() {
					ld, err := loads.Analyzed(json.RawMessage(text), "")
					if err != nil {
						outc = "loaderr"
						return
					}
					var sv *validate.SpecValidator
					if viaDefaults {
						validate.SetContinueOnErrors(cont)
						sv = validate.NewSpecValidator(ld.Schema(), reg)
						validate.SetContinueOnErrors(false)
					} else {
						sv = validate.NewSpecValidator(ld.Schema(), reg)
						sv.SetContinueOnErrors(cont)
						sv.Options.StrictPathParamUniqueness = strict
					}
					errs, _ := sv.Validate(ld)
					haserr = errs.HasErrors()
					msgs = messages(errs.Errors)
				})
				if st != "" {
					outc = st + ": " + fmt.Sprint(pv)
				}
				runs++
				ev := enc.M{"ev": "rules", "n": w.n + 1, "doc": abstract, "strict": strict, "cont": cont, "haserrors": haserr, "out": strings.SplitN(outc, ":", 2)[0], "keywordName": d.HasKeywordName()}
				if len(msgs) > 4 {
					msgs = msgs[:4]
				}
				if err := w.write(ev, enc.M{"edits": d.Edits, "strict": strict, "continueOnErrors": cont, "document": json.RawMessage(text), "errors": msgs, "outcome": outc}); err != nil {
					return err
				}
			}
		}
		if len(samples) < 4 && len(d.Edits) > 0 && w.n%53 == 0 {
			samples = append(samples, enc.M{"edits": d.Edits, "paths": len(d.Paths), "definitions": len(d.Defs)})
		}
		return nil
	}
	if *keyword {
		d := gen.ValidDoc(r)
		d.Defs = append(d.Defs, gen.ADef{Name: "items", Props: []string{"x"}})
		d.Paths[0].Ops[0].Resps[0].SchemaRef = "items"
		if err := one(d); err != nil {
			return err
		}
		w.close()
		return writeJSONFile(filepath.Join(*out, "meta.json"), map[string]interface{}{"events": w.n, "runs": runs})
	}
	idx := 0
	for i := 0; i < *n; i++ {
		base := gen.ValidDoc(r)
		variants := [][]string{{}}
		// every base: unedited, one single edit of each kind that applies (rotating), and a few double edits
		for k := 0; k < 4; k++ {
			variants = append(variants, []string{gen.RuleEdits[(i*4+k)%len(gen.RuleEdits)]})
		}
		variants = append(variants, []string{gen.RuleEdits[r.Intn(len(gen.RuleEdits))], gen.RuleEdits[r.Intn(len(gen.RuleEdits))]})
		for _, v := range variants {
			idx++
			if sn > 1 && idx%sn != sk {
				// keep the random stream aligned between shards: regenerate deterministically below
			}
			// a deep copy of the base through re-generation is not possible: rebuild from a cloned value
			b, _ := json.Marshal(base)
			var d gen.ADoc
			_ = json.Unmarshal(b, &d)
			if d.SharedParams == nil {
				d.SharedParams = map[string]gen.AParam{}
			}
			applied := true
			er := rand.New(rand.NewSource(*seed*7919 + int64(idx)))
			for _, e := range v {
				if !gen.ApplyRuleEdit(&d, e, er) {
					applied = false
				}
			}
			if !applied || (sn > 1 && idx%sn != sk) {
				continue
			}
			if err := one(&d); err != nil {
				return err
			}
		}
	}
	w.close()
	return writeJSONFile(filepath.Join(*out, "meta.json"), map[string]interface{}{"events": w.n, "runs": runs, "distinct_nontrivial": len(distinct), "samples": samples, "edits": editsSeen})
}
