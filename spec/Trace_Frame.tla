----------------------------- MODULE Trace_Frame -----------------------------
(***************************************************************************)
(* C12: validation treats its inputs as read-only.  The frame condition of  *)
(* every public call of the Api is UNCHANGED <<instance, schemaNoRef,       *)
(* docRaw>> and, for accepted documents without self-referential            *)
(* definitions, UNCHANGED docSpec.  Each event carries a deep snapshot      *)
(* (tagged encoding, so pointer aliasing does not matter) of one input      *)
(* before and after one call; the monitor requires them to be equal and     *)
(* reports the JSON pointer of the first difference.                        *)
(***************************************************************************)
EXTENDS Json, TLC, Sequences, Integers, FiniteSets, JsonSchema
Trace == ndJsonDeserialize("events.ndjson")
VARIABLES l, fails
vars == <<l, fails>>

\* pointer (as a string) of the first difference between two tagged values, "" when equal
RECURSIVE Diff(_, _, _)
Diff(a, b, p) ==
  IF a.t # b.t THEN p \o " (kind " \o a.t \o " -> " \o b.t \o ")"
  ELSE CASE a.t = "null" -> ""
         [] a.t = "bool" -> IF a.b = b.b THEN "" ELSE p
         [] a.t = "num"  -> IF Cmp(a, b) = 0 THEN "" ELSE p
         [] a.t = "str"  -> IF a.x = b.x THEN "" ELSE p
         [] a.t = "arr"  -> IF Len(a.v) # Len(b.v) THEN p \o " (length)"
                            ELSE LET bad == {j \in 1..Len(a.v) : Diff(a.v[j], b.v[j], p \o "/" \o ToString(j - 1)) # ""} IN
                                 IF bad = {} THEN "" ELSE LET j == CHOOSE j \in bad : \A q \in bad : j <= q IN Diff(a.v[j], b.v[j], p \o "/" \o ToString(j - 1))
         [] a.t = "obj"  -> IF Len(a.k) # Len(b.k) \/ \E j \in 1..Len(a.k) : a.k[j].x # b.k[j].x THEN p \o " (members)"
                            ELSE LET bad == {j \in 1..Len(a.v) : Diff(a.v[j], b.v[j], p \o "/" \o a.k[j].x) # ""} IN
                                 IF bad = {} THEN "" ELSE LET j == CHOOSE j \in bad : \A q \in bad : j <= q IN Diff(a.v[j], b.v[j], p \o "/" \o a.k[j].x)

Init == l = 1 /\ fails = {}
Next == /\ l <= Len(Trace)
        /\ l' = l + 1
        /\ LET ev == Trace[l]
               d  == IF "pre" \in DOMAIN ev THEN Diff(ev.pre, ev.post, "") ELSE ""
           IN fails' = fails
                \cup (IF d # "" THEN {[l |-> l, clause |-> "UNCHANGED " \o ev.what \o " violated by " \o ev.call, want |-> "unchanged", got |-> "differs at " \o d, dev |-> ""]} ELSE {})
                \cup (IF ev.predigest # ev.postdigest THEN {[l |-> l, clause |-> "UNCHANGED " \o ev.what \o " violated by " \o ev.call \o " (digest)", want |-> ev.predigest, got |-> ev.postdigest, dev |-> ""]} ELSE {})
Spec == Init /\ [][Next]_vars
RECURSIVE SetToSeq(_)
SetToSeq(S) == IF S = {} THEN <<>> ELSE LET x == CHOOSE x \in S : TRUE IN <<x>> \o SetToSeq(S \ {x})
Done == l = Len(Trace) + 1 =>
          /\ ndJsonSerialize("fails.ndjson", SetToSeq(fails))
          /\ PrintT(<<"TRACE-DONE", Len(Trace), Cardinality(fails)>>)
=============================================================================
