package main

import (
	"bufio"
	"bytes"
	"crypto/sha1"
	"encoding/hex"
	"encoding/json"
	"fmt"
	"os"
	"path/filepath"
	"sort"
	"strings"
	"time"

	"github.com/go-openapi/errors"
)

// chunkWriter writes events (for TLC) and their raw inputs (for replay files) into
// <dir>/chunk-NNN/{events.ndjson,inputs.ndjson}, at most `size` events per chunk.
type chunkWriter struct {
	dir   string
	size  int
	n     int
	chunk int
	ev    *bufio.Writer
	in    *bufio.Writer
	fe    *os.File
	fi    *os.File
}

func newChunkWriter(dir string, size int) *chunkWriter {
	return &chunkWriter{dir: dir, size: size, chunk: -1}
}

func (w *chunkWriter) open() error {
	w.close()
	w.chunk++
	d := filepath.Join(w.dir, fmt.Sprintf("chunk-%03d", w.chunk))
	if err := os.MkdirAll(d, 0o755); err != nil {
		return err
	}
	var err error
	if w.fe, err = os.Create(filepath.Join(d, "events.ndjson")); err != nil {
		return err
	}
	if w.fi, err = os.Create(filepath.Join(d, "inputs.ndjson")); err != nil {
		return err
	}
	w.ev = bufio.NewWriterSize(w.fe, 1<<20)
	w.in = bufio.NewWriterSize(w.fi, 1<<20)
	return nil
}

func (w *chunkWriter) close() {
	if w.ev != nil {
		w.ev.Flush()
		w.in.Flush()
		w.fe.Close()
		w.fi.Close()
		w.ev = nil
	}
}

func (w *chunkWriter) write(event, input interface{}) error {
	if w.ev == nil || (w.size > 0 && w.n > 0 && w.n%w.size == 0) {
		if err := w.open(); err != nil {
			return err
		}
	}
	eb, err := marshalASCII(event)
	if err != nil {
		return err
	}
	ib, err := json.Marshal(input)
	if err != nil {
		return err
	}
	w.ev.Write(eb)
	w.ev.WriteByte('\n')
	w.in.Write(ib)
	w.in.WriteByte('\n')
	w.n++
	return nil
}

// marshalASCII marshals v; the tagged encoding is ASCII by construction, this is a safety net.
func marshalASCII(v interface{}) ([]byte, error) {
	var buf bytes.Buffer
	e := json.NewEncoder(&buf)
	e.SetEscapeHTML(false)
	if err := e.Encode(v); err != nil {
		return nil, err
	}
	b := bytes.TrimRight(buf.Bytes(), "\n")
	for _, c := range b {
		if c >= 0x80 {
			return nil, fmt.Errorf("non-ASCII byte in event: %s", b)
		}
	}
	return b, nil
}

func digest(parts ...string) string {
	h := sha1.Sum([]byte(strings.Join(parts, "\x00")))
	return hex.EncodeToString(h[:8])
}

// messages returns the sorted message set of an error list.
func messages(errs []error) []string {
	seen := map[string]struct{}{}
	out := []string{}
	for _, e := range errs {
		if e == nil {
			continue
		}
		m := e.Error()
		if _, ok := seen[m]; !ok {
			seen[m] = struct{}{}
			out = append(out, m)
		}
	}
	sort.Strings(out)
	return out
}

func compositeMessages(err error) []string {
	if err == nil {
		return []string{}
	}
	if ce, ok := err.(*errors.CompositeError); ok {
		return messages(ce.Errors)
	}
	return []string{err.Error()}
}

// guarded runs f with panic recovery and a watchdog. It returns "", "panic" or "hang".
func guarded(timeout time.Duration, f func()) (status string, panicVal interface{}) {
	done := make(chan struct{})
	go func() {
		defer func() {
			if r := recover(); r != nil {
				status, panicVal = "panic", r
			}
			close(done)
		}()
		f()
	}()
	select {
	case <-done:
		return status, panicVal
	case <-time.After(timeout):
		return "hang", nil
	}
}

func writeJSONFile(path string, v interface{}) error {
	b, err := json.MarshalIndent(v, "", " ")
	if err != nil {
		return err
	}
	return os.WriteFile(path, b, 0o644)
}

func readLines(path string) []string {
	b, err := os.ReadFile(path)
	if err != nil {
		return nil
	}
	var out []string
	for _, l := range strings.Split(string(b), "\n") {
		if strings.TrimSpace(l) != "" {
			out = append(out, l)
		}
	}
	return out
}

// repoRoot is the tree under verification (fixtures are read from it): /repo unless VERIF_REPO names another one.
func repoRoot() string {
	if d := os.Getenv("VERIF_REPO"); d != "" {
		return d
	}
	return "/repo"
}
