---------------------------- MODULE Trace_Schema ----------------------------
(***************************************************************************)
(* Trace specification for events of kind "schema" recorded from the real   *)
(* code: one event = one (schema, instance) pair run through both entry     *)
(* points.  Every event is evaluated (a failing event never disables the    *)
(* next one); failures are collected with the named deviation that explains *)
(* them, if any, and written to fails.ndjson when the last event has been   *)
(* consumed.  C01: o1 = o2 = Valid.                                         *)
(***************************************************************************)
EXTENDS Json, TLC, Sequences, Integers, FiniteSets, JsonSchema
CONSTANT OpenDevs      \* named deviations of KNOWN-FINDINGS.txt whose witness still fails
Trace == ndJsonDeserialize("events.ndjson")
VARIABLES l, fails
vars == <<l, fails>>

Known(ev) == SeqToSet(ev.known)
Verdict(b) == IF b THEN "valid" ELSE "invalid"

\* the deviation (name) that explains outcome `o` for event ev, "" if none
Explain(ev, o) ==
  LET one == {d \in OpenDevs \ {"MultipleOfFloat"} : Verdict(Valid(ev.root, Known(ev), {d}, ev.root, ev.i)) = o}
  IN IF one # {} THEN CHOOSE d \in one : TRUE
     ELSE IF Verdict(Valid(ev.root, Known(ev), OpenDevs, ev.root, ev.i)) = o THEN "combined"
     ELSE IF "MultipleOfFloat" \in OpenDevs /\ o \in {"valid", "invalid"} /\ TouchesMultRegion(ev.root, ev.i) THEN "MultipleOfFloat"
     ELSE ""

Check(ev, k) ==
  LET ideal == Verdict(Valid(ev.root, Known(ev), {}, ev.root, ev.i))
      f1 == IF ev.o1 = ideal THEN {} ELSE {[l |-> k, n |-> ev.n, clause |-> "oneshot", want |-> ideal, got |-> ev.o1, dev |-> Explain(ev, ev.o1)]}
      f2 == IF ev.o2 = ideal THEN {} ELSE {[l |-> k, n |-> ev.n, clause |-> "validator", want |-> ideal, got |-> ev.o2, dev |-> Explain(ev, ev.o2)]}
      f3 == IF ev.o1 = ev.o2 THEN {} ELSE {[l |-> k, n |-> ev.n, clause |-> "agree", want |-> ev.o1, got |-> ev.o2, dev |-> ""]}
      \* events built from the repository's labelled suite also carry the label: the ORACLE must agree with it
      f4 == IF "label" \in DOMAIN ev /\ ev.label # ideal THEN {[l |-> k, n |-> ev.n, clause |-> "suite-label", want |-> ev.label, got |-> ideal, dev |-> ""]} ELSE {}
  IN f1 \cup f2 \cup f3 \cup f4

Init == l = 1 /\ fails = {}
Next == /\ l <= Len(Trace)
        /\ l' = l + 1
        /\ fails' = fails \cup Check(Trace[l], l)
Spec == Init /\ [][Next]_vars

RECURSIVE SetToSeq(_)
SetToSeq(S) == IF S = {} THEN <<>> ELSE LET x == CHOOSE x \in S : TRUE IN <<x>> \o SetToSeq(S \ {x})

\* evaluated in every state; acts only in the final one
Done == l = Len(Trace) + 1 =>
          /\ ndJsonSerialize("fails.ndjson", SetToSeq(fails))
          /\ PrintT(<<"TRACE-DONE", Len(Trace), Cardinality(fails)>>)
=============================================================================
