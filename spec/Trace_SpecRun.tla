---------------------------- MODULE Trace_SpecRun ----------------------------
(***************************************************************************)
(* Trace validation of whole-specification validations ("specrun" events:   *)
(* one run of SpecValidator.Validate on one loaded document in one mode).   *)
(* Clauses (selected by the check that runs the monitor):                   *)
(*  C07  AlwaysReturns: the run returned its two results, and its phase     *)
(*       trace (verifPhase hook) is a run of the SpecValidator phase        *)
(*       machine ending with "return";                                      *)
(*  C10  Deterministic: same (document, mode) => same error and warning     *)
(*       sets as the first time; Monotone: errors(stop) \subseteq           *)
(*       errors(continue); validity is the absence of errors; the           *)
(*       separately returned warnings are exactly the attached ones;        *)
(*  C02  an accepted document satisfies the Swagger 2.0 schema              *)
(*       (JsonSchema!Valid on the raw document; the schema bundle is read   *)
(*       from swagger.ndjson).                                              *)
(***************************************************************************)
EXTENDS Json, TLC, JsonSchema
CONSTANTS Clauses, OpenDevs, ErrMsgs, WarnMsgs, Contributing
Trace == ndJsonDeserialize("events.ndjson")
Swagger == IF "C02" \in Clauses THEN ndJsonDeserialize("swagger.ndjson")[1] ELSE [has |-> <<>>]
SV == INSTANCE SpecValidator WITH pc <- 0, errs <- 0, warns <- 0, ret <- 0, contrib <- 0, circ <- FALSE   \* only its constant-level operators are used

VARIABLES l, fails, first
vars == <<l, fails, first>>
Init == l = 1 /\ fails = {} /\ first = [k \in {} |-> 0]

S(q) == {q[j] : j \in 1..Len(q)}
F(k, ev, clause, want, got, dev) == [l |-> k, doc |-> ev.doc, clause |-> clause, want |-> want, got |-> got, dev |-> dev]

ExplainC02(ev) ==
  LET known == {"uri", "email", "date", "date-time"} \cap {"uri", "email"}
      one == {d \in OpenDevs : Valid(Swagger, {"uri", "email"}, {d}, Swagger, ev.raw)} IN
  IF one # {} THEN CHOOSE d \in one : TRUE
  ELSE IF Valid(Swagger, {"uri", "email"}, OpenDevs, Swagger, ev.raw) THEN "combined" ELSE ""

Check(ev, k) ==
  LET key == <<ev.doc, ev.mode>>
      other == <<ev.doc, IF ev.mode = "stop" THEN "cont" ELSE "stop">>
  IN
  (IF "C07" \in Clauses THEN
     (IF ev.out # "returned" THEN {F(k, ev, "AlwaysReturns: validation ended with " \o ev.out \o " (" \o ev.mode \o ")", "returned", ev.out, "")} ELSE {})
     \cup (IF ev.out = "returned" /\ ~SV!IsRunCore(ev.phases) THEN {F(k, ev, "the phase trace does not end with the return bookkeeping, or an error was taken back (" \o ev.mode \o ")", "a run ending with return, errors only growing", ToString(ev.phases), "")} ELSE {})
     \cup (IF ev.out = "returned" /\ SV!IsRunCore(ev.phases) /\ ~SV!IsRun(ev.phases, ev.mode, ev.circ) THEN {F(k, ev, "the phase trace is not a run of the SpecValidator phase machine (" \o ev.mode \o ")", "a run", ToString(ev.phases), "model-drift")} ELSE {})
   ELSE {})
  \cup
  (IF "C10" \in Clauses /\ ev.out = "returned" THEN
     (IF key \in DOMAIN first /\ (first[key].errs # S(ev.errs) \/ first[key].warns # S(ev.warns))
        THEN {F(k, ev, "Deterministic: differs from the first validation of this document (" \o ev.mode \o ")", ToString(first[key]), ToString([errs |-> S(ev.errs), warns |-> S(ev.warns)]), "")} ELSE {})
     \cup (IF other \in DOMAIN first /\ ~(IF ev.mode = "stop" THEN S(ev.errs) \subseteq first[other].errs ELSE first[other].errs \subseteq S(ev.errs))
        THEN {F(k, ev, "Monotone: an error reported when stopping early is missing with continue-on-errors", "errors(stop) subset of errors(continue)", ToString(S(ev.errs)), "")} ELSE {})
     \cup (IF ev.accepted # (Len(ev.errs) = 0) THEN {F(k, ev, "validity is exactly the absence of errors", ToString(Len(ev.errs) = 0), ToString(ev.accepted), "")} ELSE {})
     \cup (IF S(ev.retwarns) # S(ev.warns) THEN {F(k, ev, "the separately returned warnings are exactly the warnings attached to the main result", ToString(S(ev.warns)), ToString(S(ev.retwarns)), "")} ELSE {})
   ELSE {})
  \cup
  (IF "C02" \in Clauses /\ "raw" \in DOMAIN ev /\ ev.accepted /\ ~Valid(Swagger, {"uri", "email"}, {}, Swagger, ev.raw)
     THEN {F(k, ev, "accepted (" \o ev.mode \o ") although the raw document violates the Swagger 2.0 schema", "at least one error", "accepted", ExplainC02(ev))} ELSE {})

Next == /\ l <= Len(Trace)
        /\ l' = l + 1
        /\ LET ev == Trace[l]  key == <<ev.doc, ev.mode>> IN
           /\ fails' = fails \cup Check(ev, l)
           /\ first' = IF ev.out = "returned" /\ key \notin DOMAIN first
                       THEN [x \in DOMAIN first \cup {key} |-> IF x = key THEN [errs |-> S(ev.errs), warns |-> S(ev.warns)] ELSE first[x]]
                       ELSE first
Spec == Init /\ [][Next]_vars
RECURSIVE SetToSeq(_)
SetToSeq(X) == IF X = {} THEN <<>> ELSE LET x == CHOOSE x \in X : TRUE IN <<x>> \o SetToSeq(X \ {x})
Done == l = Len(Trace) + 1 =>
          /\ ndJsonSerialize("fails.ndjson", SetToSeq(fails))
          /\ PrintT(<<"TRACE-DONE", Len(Trace), Cardinality(fails)>>)
=============================================================================
