"""C17 - every rejection is explained by well-formed, correctly located errors."""
from . import common, schemafam


def run(tier, seed):
    check = common.Check("C17", tier, seed, "model_checking")
    vh = common.build_vh()
    # verdict deviations of C01 that are still live: a wrong verdict is C01's finding, not a wrong location
    live = schemafam.live_devs(check, vh, "Trace_Schema", common.Known().devs("C01"), report=False)
    quick = tier == "quick"
    on_fail = schemafam.simple_violations(check, "errors")
    k = 1 if quick else 25
    for name, mode, n, depth in (("nesting", "nesting", 2500 * k, 3), ("random", "random", 1500 * k, 3), ("pairwise", "pairwise", 1500 * k, 3),
                                 ("nesting-deep", "nesting", 600 * k, 4)):
        schemafam.run_traces(check, vh, name, ["drive-errors", "-mode", mode, "-seed", seed, "-n", n, "-per", 3, "-depth", depth, "-chunk", 1500],
                             "Trace_Errors", live, on_fail)
    check.coverage["rule"] = ("(schema, instance, root path) triples; root path drawn from {\"\", \"root\", \"a.b\"}. nesting = random schemas of the nesting class "
                              "(local keywords + properties/patternProperties/additionalProperties/tuple items/additionalItems/required) with instances shaped after the schema and "
                              "planted offenders; random/pairwise = the C01 generators. TLC evaluates Trace_Errors on every event: verdict vs. error presence, composite code 422, "
                              "message set of the one-shot error = message set of the result, no duplicates, names in AllowedNames, and (nesting class) names in OffenderNames. "
                              "non-trivial = distinct triples with an invalid verdict.")
    check.assumptions = ["names are compared in percent-encoded form", "facts (regexp, formats, code points) supplied by the harness",
                         "verdict deviations listed as open C01 findings are applied when deciding which member offends"]
    return check.finish()
