"""C02 - an accepted Swagger document always satisfies the Swagger 2.0 JSON schema."""
from . import common, specfam, schemafam


def run(tier, seed):
    check = common.Check("C02", tier, seed, "model_checking")
    vh = common.build_vh()
    quick = tier == "quick"
    known = dict(common.Known().devs("C02"))
    live = specfam.live_spec_devs(check, vh, known, ["C02"])
    # verdict deviations of C01 that are live are the only other explanations accepted
    c01 = schemafam.live_devs(check, vh, "Trace_Schema", common.Known().devs("C01"), report=False)
    devs = sorted(set(live) | (set(c01) & set(live)))
    args = ["-seed", seed, "-bases", 5 if quick else 0, "-edits", 90 if quick else 100, "-double", 0.3, "-raw"]
    fails = specfam.run_spec(check, vh, "edits", args, ["C02"], devs, shards=8 if quick else 14)
    specfam.report(check, fails, live)
    check.coverage["rule"] = ("base documents (hand-written + fixtures in the thorough tier) altered by 1-2 structural edits chosen over all JSON pointers (delete, null, retype, rename, $ref to nowhere, siblings of "
                              "$ref, transplant, duplicate); both continue-on-errors settings. For every ACCEPTED run TLC evaluates JsonSchema!Valid with the official Swagger 2.0 schema (bundled with the draft-04 "
                              "fragments it references, read from spec.MustLoadSwagger20Schema at run time) on the raw document. Only accepted => schema-valid is checked. distinct = distinct documents that load.")
    check.coverage["open_deviations_honoured"] = devs
    check.assumptions = ["uri/email format answers come from strfmt.Default", "the oracle is the same Valid operator as C01 (cross-checked against the labelled draft-4 suite there)"]
    return check.finish()
