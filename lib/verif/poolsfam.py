"""Pool life-cycle checks (C04, C11, C05): exhaustive ValidatorTree configurations, history execution on the real
pools with poisoning, Trace_Pools monitor on the recorded borrow/redeem streams."""
import json, os
from . import common, schemafam
from .common import Inconclusive

VT_CFG = """SPECIFICATION Spec
CONSTANTS
  Gor = {%s}
  MaxObj = %d
  MaxCalls = %d
  NilSlotBeforeCall = %s
  AllowPanic = %s
INVARIANTS NoDup Exclusive NoBad NoLeakWhenIdle
CHECK_DEADLOCK FALSE
"""


def model(check, name, gor, maxcalls, panic, nilfirst=True, maxobj=6, timeout=1800, expect_violation=False):
    wd = common.workdir("%s-vt-%s" % (check.prop, name))
    r = common.tlc(wd, "ValidatorTree", VT_CFG % (gor, maxobj, maxcalls, "TRUE" if nilfirst else "FALSE", "TRUE" if panic else "FALSE"),
                   timeout=timeout, workers=8, heap="8g")
    if r["timeout"]:
        raise Inconclusive("ValidatorTree %s timed out" % name)
    if expect_violation:
        if r["violated"] != "NoDup":
            raise Inconclusive("ValidatorTree(%s) was expected to exhibit the double redeem (NoDup) but did not: the model lost its bite\n%s" % (name, r["out"][-800:]))
        check.coverage.setdefault("model_counterexamples_reproduced", []).append(name + ": NoDup violated with the pre-fix ordering, as expected")
        return r
    if r["violated"] or r["error"]:
        raise Inconclusive("ValidatorTree(%s): %s\n%s" % (name, r["violated"] or r["error"], r["out"][-1500:]))
    check.add_tlc(r)
    check.coverage.setdefault("exhaustive_models", {})[name] = dict(distinct_states=r["distinct"], transitions=r["states"], depth=r["depth"])
    return r


def model_sim(check, name, gor, maxcalls, panic, maxobj, num, depth=120, timeout=3600):
    """A configuration too large for exhaustive search (measured: 2 goroutines x 2 calls with 4 objects exceeds 16 M distinct
    states after 7 minutes and 50 GB of state files): TLC checks the same invariants along random behaviours instead."""
    wd = common.workdir("%s-vtsim-%s" % (check.prop, name))
    r = common.tlc(wd, "ValidatorTree", VT_CFG % (gor, maxobj, maxcalls, "TRUE", "TRUE" if panic else "FALSE"), timeout=timeout, workers=8, heap="4g",
                   simulate="num=%d" % num, extra_args=["-depth", str(depth), "-seed", str(check.seed)])
    if r["timeout"]:
        raise Inconclusive("ValidatorTree simulation %s timed out" % name)
    if r["violated"] or r["error"]:
        raise Inconclusive("ValidatorTree(%s, simulation): %s\n%s" % (name, r["violated"] or r["error"], r["out"][-1500:]))
    check.coverage["states"] += r["states"]
    check.coverage.setdefault("simulated_models", {})[name] = dict(states_checked=r["states"], behaviours=r.get("traces", 0), depth=depth)
    return r


def histories(check, vh, name, args, full, timeout=None):
    """Run histories on the real code, then validate the recorded stream with Trace_Pools."""
    timeout = timeout or (900 if check.tier == "quick" else 14400)
    wd = common.workdir("%s-%s" % (check.prop, name))
    # a history that kills the driver (a corrupted pool can end in a fatal error or an endless loop) is reported as such
    common.run_resumable([vh, "run-history", "-out", wd] + (["-full"] if full else []) + [str(a) for a in args], wd, name, timeout=timeout)
    meta = json.load(open(os.path.join(wd, "meta.json")))
    cks = schemafam.chunks(wd)
    cfg = "SPECIFICATION Spec\nINVARIANT Done\nCHECK_DEADLOCK FALSE\nCONSTANT FullStream = %s\n" % ("TRUE" if full else "FALSE")

    def ev(c):
        rr = common.tlc_or_inconclusive(c, "Trace_Pools", cfg, timeout=3600, heap="4g")
        n = sum(1 for _ in open(os.path.join(c, "events.ndjson")))
        if "TRACE-DONE" not in rr["out"] or rr["distinct"] != n + 1:
            raise Inconclusive("pool trace not fully consumed: %s\n%s" % (c, rr["out"][-1500:]))
        fails = common.read_ndjson(os.path.join(c, "fails.ndjson"))
        inputs = common.read_ndjson(os.path.join(c, "inputs.ndjson"))
        for f in fails:
            f["input"] = inputs[f["l"] - 1]
        return rr, fails
    nfail = 0
    for rr, fails in common.parallel(ev, cks):
        check.add_tlc(rr)
        for f in fails:
            nfail += 1
            if nfail <= 3:
                mm = [m for m in (meta.get("mismatches") or []) if m["history"] == f["input"].get("history")]
                check.violation(dict(family="pools", build=name, clause=f["clause"], pool=f["pool"], object=f["obj"], event_line=f["l"], history=f["input"], outcome_mismatches=mm[:2]),
                                "%s [%s] in history %s" % (f["clause"], name, f["input"].get("history")))
    if nfail == 0 and meta.get("mismatches"):
        raise Inconclusive("harness reported an outcome mismatch that the monitor did not see")
    check.coverage["evaluations"] += meta["calls"]
    check.coverage["distinct_nontrivial"] += meta["distinct_nontrivial"]
    check.coverage["traces_validated_against_impl"] += meta["histories"]
    check.coverage["samples"] += [dict(history=s) for s in (meta["samples"] or [])[:1]]
    check.coverage.setdefault("pool_events", 0)
    check.coverage["pool_events"] += meta["events"]
    check.coverage.setdefault("panics_injected", 0)
    check.coverage["panics_injected"] += meta.get("panics_injected", 0)
    return meta


RF_CFG = """SPECIFICATION Spec
CONSTANTS
  NAlt = %d
  MaxRes = %d
  ReadAfterMerge = %s
INVARIANTS NoDup NoUseAfter NoLeak
CHECK_DEADLOCK FALSE
"""


def resultflow(check, nalt=3):
    """ResultFlow.tla: the result life-cycle of the composition validator, every outcome of every alternative."""
    wd = common.workdir("%s-resultflow" % check.prop)
    r = common.tlc(wd, "ResultFlow", RF_CFG % (nalt, 4 * nalt + 4, "FALSE"), timeout=1800, workers=4)
    if r["timeout"] or r["violated"] or r["error"]:
        raise Inconclusive("ResultFlow.tla (code ordering): %s\n%s" % (r["violated"] or r["error"] or "timeout", r["out"][-1500:]))
    check.add_tlc(r)
    check.coverage.setdefault("exhaustive_models", {})["resultflow-%dalt" % nalt] = dict(distinct_states=r["distinct"], transitions=r["states"], depth=r["depth"])
    wd = common.workdir("%s-resultflow-defect" % check.prop)
    r = common.tlc(wd, "ResultFlow", RF_CFG % (nalt, 4 * nalt + 4, "TRUE"), timeout=1800, workers=4)
    if r["violated"] != "NoUseAfter":
        raise Inconclusive("ResultFlow.tla with ReadAfterMerge was expected to violate NoUseAfter: the model lost its bite")
    check.coverage.setdefault("model_counterexamples_reproduced", []).append("resultflow: NoUseAfter violated when validity is read after the merge, as expected")
