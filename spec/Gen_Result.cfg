SPECIFICATION SimSpec
CONSTANTS
  RIds = {"r1", "r2", "r3"}
  Msgs = {"a", "b", "c"}
  Nil = "nil"
  Depth = 30
  MaxMC = 100000
INVARIANT Emit
CHECK_DEADLOCK FALSE
