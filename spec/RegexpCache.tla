---------------------------- MODULE RegexpCache ----------------------------
(***************************************************************************)
(* rexp.go: the process-wide cache of compiled regular expressions.         *)
(*   compileRegexp(p):  lock-free read of the published immutable snapshot  *)
(*                      (atomic.Value holding a map); on a miss compile p,  *)
(*                      then cacheRegexp(r):                                *)
(*   cacheRegexp(r):    lock the mutex, RELOAD the snapshot, and unless     *)
(*                      r.String() is already a key publish a copy of the   *)
(*                      snapshot extended with r.String() |-> r.            *)
(* One action per step of the code between two gate hooks (verifGate):      *)
(* Lookup | Compile | Lock | Reload | Store | Unlock.                       *)
(*                                                                          *)
(* A compiled expression is represented by its SOURCE TEXT: what matching   *)
(* with it means is fully determined by that text.                          *)
(***************************************************************************)
EXTENDS Integers, FiniteSets, TLC
CONSTANTS Gor,     \* goroutines
          Pats,    \* patterns that may be requested
          Bad,     \* the subset of Pats that does not compile
          MaxReq   \* requests per goroutine
None == "none"
VARIABLES dict,  \* the published snapshot: [subset of Pats -> source text of the stored expression]
          mu,    \* holder of cacheMutex, or None
          pc,    \* per goroutine: idle | lookup | compile | lock | reload | store | unlock
          req,   \* the pattern being requested
          rsrc,  \* source text of the expression compiled by this goroutine
          snap,  \* the snapshot this goroutine loaded under the lock
          ret,   \* last returned [pat |-> requested, out |-> source text of returned expression | "error"]
          nreq
vars == <<dict, mu, pc, req, rsrc, snap, ret, nreq>>

Init == /\ dict = [p \in {} |-> p] /\ mu = None
        /\ pc = [g \in Gor |-> "idle"] /\ req = [g \in Gor |-> None] /\ rsrc = [g \in Gor |-> None]
        /\ snap = [g \in Gor |-> dict] /\ ret = [g \in Gor |-> [pat |-> None, out |-> None]] /\ nreq = [g \in Gor |-> 0]

Call(g, p) == /\ pc[g] = "idle" /\ nreq[g] < MaxReq
              /\ req' = [req EXCEPT ![g] = p]
              /\ pc' = [pc EXCEPT ![g] = "lookup"] /\ nreq' = [nreq EXCEPT ![g] = @ + 1]
              /\ ret' = [ret EXCEPT ![g] = [pat |-> None, out |-> None]]
              /\ UNCHANGED <<dict, mu, rsrc, snap>>
\* cache := reDict.Load(); r := cache[pattern]
Lookup(g) == /\ pc[g] = "lookup"
             /\ IF req[g] \in DOMAIN dict
                THEN /\ ret' = [ret EXCEPT ![g] = [pat |-> req[g], out |-> dict[req[g]]]]
                     /\ pc' = [pc EXCEPT ![g] = "idle"]
                ELSE /\ pc' = [pc EXCEPT ![g] = "compile"] /\ UNCHANGED ret
             /\ UNCHANGED <<dict, mu, req, rsrc, snap, nreq>>
\* r, err := re.Compile(pattern)
Compile(g) == /\ pc[g] = "compile"
              /\ IF req[g] \in Bad
                 THEN /\ ret' = [ret EXCEPT ![g] = [pat |-> req[g], out |-> "error"]]
                      /\ pc' = [pc EXCEPT ![g] = "idle"] /\ UNCHANGED rsrc
                 ELSE /\ rsrc' = [rsrc EXCEPT ![g] = req[g]]   \* r.String() = pattern
                      /\ pc' = [pc EXCEPT ![g] = "lock"] /\ UNCHANGED ret
              /\ UNCHANGED <<dict, mu, req, snap, nreq>>
Lock(g) == /\ pc[g] = "lock" /\ mu = None /\ mu' = g /\ pc' = [pc EXCEPT ![g] = "reload"]
           /\ UNCHANGED <<dict, req, rsrc, snap, ret, nreq>>
Reload(g) == /\ pc[g] = "reload"
             /\ snap' = [snap EXCEPT ![g] = dict]
             /\ pc' = [pc EXCEPT ![g] = IF rsrc[g] \in DOMAIN dict THEN "unlock" ELSE "store"]
             /\ UNCHANGED <<dict, mu, req, rsrc, ret, nreq>>
Store(g) == /\ pc[g] = "store"
            /\ dict' = [k \in DOMAIN snap[g] \cup {rsrc[g]} |-> IF k = rsrc[g] THEN rsrc[g] ELSE snap[g][k]]
            /\ pc' = [pc EXCEPT ![g] = "unlock"]
            /\ UNCHANGED <<mu, req, rsrc, snap, ret, nreq>>
Unlock(g) == /\ pc[g] = "unlock" /\ mu = g /\ mu' = None
             /\ ret' = [ret EXCEPT ![g] = [pat |-> req[g], out |-> rsrc[g]]]
             /\ pc' = [pc EXCEPT ![g] = "idle"]
             /\ UNCHANGED <<dict, req, rsrc, snap, nreq>>
Next == \E g \in Gor : (\E p \in Pats : Call(g, p)) \/ Lookup(g) \/ Compile(g) \/ Lock(g) \/ Reload(g) \/ Store(g) \/ Unlock(g)
Spec == Init /\ [][Next]_vars

(***************************************************************************)
(* C15: pattern matching always uses the expression that was asked for.     *)
(***************************************************************************)
\* every cached expression is filed under its own source text
KeyIsSource == \A k \in DOMAIN dict : dict[k] = k
\* the expression returned for request p was compiled from p; an invalid pattern is always an error
ReturnedIsRequested == \A g \in Gor : ret[g].pat # None =>
                          (IF ret[g].pat \in Bad THEN ret[g].out = "error" ELSE ret[g].out = ret[g].pat)
InvalidNeverCached == DOMAIN dict \cap Bad = {}
MutexOK == \A g \in Gor : pc[g] \in {"reload", "store", "unlock"} => mu = g
\* design extras (not part of the property's verdict): no entry is ever lost, published snapshots only grow
Monotone == [][DOMAIN dict \subseteq DOMAIN dict']_vars
=============================================================================
