package main

import (
	"encoding/json"
	"flag"
	"fmt"
	"math/rand"
	"path/filepath"
	"sort"
	"strings"

	"github.com/go-openapi/strfmt"

	"verifharness/internal/enc"
	"verifharness/internal/gen"
)

func init() { commands["drive-carrier"] = driveCarrier }

// driveCarrier validates, for every carrier of the universe, the clean document D0 and D1 = D0 + the value, and records
// the error counts and warning sets of both together with the judging schema and the value (C09).
func driveCarrier(args []string) error {
	fs := flag.NewFlagSet("drive-carrier", flag.ExitOnError)
	seed := fs.Int64("seed", 1, "seed")
	n := fs.Int("n", 0, "sample size (0 = whole universe)")
	shard := fs.String("shard", "0/1", "k/n")
	only := fs.String("only", "", "restrict to one location kind (witness runs)")
	onlyName := fs.String("name", "", "restrict to one name (witness runs)")
	out := fs.String("out", "", "output directory")
	fs.Parse(args)
	var sk, sn int
	fmt.Sscanf(*shard, "%d/%d", &sk, &sn)
	r := rand.New(rand.NewSource(*seed))
	reg := strfmt.Default
	installPhaseHook()
	in := &interner{}
	cs := gen.Carriers()
	if *only != "" {
		var f []gen.Carrier
		for _, c := range cs {
			if c.Loc == *only && (*onlyName == "" || c.Name == *onlyName) && !c.Accept && c.What == "default" {
				f = append(f, c)
			}
		}
		cs = f[:1]
	} else if *n > 0 && *n < len(cs) {
		// stratified sample: every location kind gets its share, rejected values first (they are the ones that must be reported)
		r.Shuffle(len(cs), func(i, j int) { cs[i], cs[j] = cs[j], cs[i] })
		groups := map[string][]gen.Carrier{}
		var order []string
		for _, c := range cs {
			if _, ok := groups[c.Loc]; !ok {
				order = append(order, c.Loc)
			}
			if c.Accept {
				groups[c.Loc] = append(groups[c.Loc], c)
			} else {
				groups[c.Loc] = append([]gen.Carrier{c}, groups[c.Loc]...)
			}
		}
		sort.Strings(order)
		per := *n/len(order) + 1
		var pick []gen.Carrier
		for _, loc := range order {
			g := groups[loc]
			if len(g) > per {
				// keep rejected and accepted ones: two thirds rejected
				rej := per * 2 / 3
				acc := g[len(g)-(per-rej):]
				g = append(append([]gen.Carrier{}, g[:rej]...), acc...)
			}
			pick = append(pick, g...)
		}
		cs = pick
	}
	w := newChunkWriter(*out, 400)
	defer w.close()
	distinct := map[string]struct{}{}
	var samples []interface{}
	for ci, c := range cs {
		if sn > 1 && ci%sn != sk {
			continue
		}
		d0, _ := json.Marshal(c.Doc0)
		d1, _ := json.Marshal(c.Doc1)
		for _, cont := range []bool{true, false} {
			if !cont && ci%4 != 0 {
				continue // stop mode on a quarter of the carriers
			}
			r0 := runSpecOnce(d0, cont, in, reg)
			r1 := runSpecOnce(d1, cont, in, reg)
			if strings.HasPrefix(c.Loc, "second-operation") {
				// the walk order over operations is a map order: validate D1 several times, keep the run that reports least
				for rep := 0; rep < 4; rep++ {
					rr := runSpecOnce(d1, cont, in, reg)
					if len(rr.errs)+len(rr.warns) < len(r1.errs)+len(r1.warns) {
						r1 = rr
					}
				}
			}
			st, _ := json.Marshal(c.Schema)
			vt, _ := json.Marshal(c.Value)
			sg, _ := decodeNumber(st)
			vg, _ := decodeNumber(vt)
			ctx := &enc.Ctx{Reg: reg}
			ev := enc.M{"ev": "carrier", "n": w.n + 1, "loc": c.Loc, "what": c.What, "simple": c.Simple,
				"out0": r0.out, "out1": r1.out, "e0": len(r0.errs), "e1": len(r1.errs), "w0": r0.warns, "w1": r1.warns}
			if c.Simple {
				collectSimple(ctx, sg.(map[string]interface{}))
				ev["def"] = simpleDefEnc(ctx, sg.(map[string]interface{}))
				fv, _ := decodeFloat(vt)
				ev["val"] = goValueF(ctx, fv)
			} else {
				ctx.Collect(sg)
				ev["root"] = ctx.Root(sg.(map[string]interface{}))
				ev["val"] = ctx.Value(vg)
			}
			ev["known"] = ctx.Known()
			vps := []interface{}{}
			for _, p := range c.VPaths {
				vps = append(vps, p)
			}
			ev["vpaths"] = vps
			distinct[c.Loc+"/"+c.Name+"/"+c.What+"/"+string(st)+"/"+string(vt)] = struct{}{}
			if len(samples) < 5 && ci%97 == 0 {
				samples = append(samples, enc.M{"loc": c.Loc, "name": c.Name, "what": c.What, "schema": json.RawMessage(st), "value": json.RawMessage(vt), "errors_D0": len(r0.errs), "errors_D1": len(r1.errs)})
			}
			mode := "cont"
			if !cont {
				mode = "stop"
			}
			if err := w.write(ev, enc.M{"loc": c.Loc, "name": c.Name, "what": c.What, "mode": mode, "schema": json.RawMessage(st), "value": json.RawMessage(vt), "D1": json.RawMessage(d1)}); err != nil {
				return err
			}
		}
	}
	w.close()
	return writeJSONFile(filepath.Join(*out, "meta.json"), map[string]interface{}{"events": w.n, "runs": 2 * w.n, "universe": len(cs), "distinct_nontrivial": len(distinct), "samples": samples})
}
