"""C01 - schema validation verdicts agree with JSON Schema draft 4 (both entry points)."""
import os
from . import common, schemafam


def run(tier, seed):
    check = common.Check("C01", tier, seed, "model_checking")
    vh = common.build_vh()
    known = common.Known().devs("C01")
    live = schemafam.live_devs(check, vh, "Trace_Schema", known)
    quick = tier == "quick"
    fails, smeta = schemafam.oracle_selfcheck(check, vh, "Trace_Schema", live)
    schemafam.classify(check, fails, live)
    check.coverage["evaluations"] += smeta["events"]
    runs = [
        ("pairwise", ["-mode", "pairwise", "-seed", seed, "-n", 700 if quick else 0, "-chunk", 6000]),
        ("random", ["-mode", "random", "-seed", seed, "-n", 4000 if quick else 120000, "-per", 4, "-depth", 3 if quick else 4, "-chunk", 4000]),
    ]
    if not quick:
        runs.append(("random-deep", ["-mode", "random", "-seed", seed + 1000, "-n", 20000, "-per", 3, "-depth", 5, "-chunk", 2000]))
    rule = []
    for name, args in runs:
        wd = common.workdir("C01-" + name)
        meta = schemafam.drive(vh, wd, args)
        cks = schemafam.chunks(wd)
        results = common.parallel(lambda c: schemafam.eval_chunk(c, "Trace_Schema", sorted(live)), cks)
        for r, fails in results:
            check.add_tlc(r)
            schemafam.classify(check, fails, live)
        check.coverage["evaluations"] += meta["events"]
        check.coverage["distinct_nontrivial"] += meta["distinct_nontrivial"]
        check.coverage["traces_validated_against_impl"] += len(cks)
        check.coverage["samples"] += meta["samples"][:3]
        rule.append("%s: %d events" % (name, meta["events"]))
    check.coverage["rule"] = ("(schema, instance) pairs run through AgainstSchema and NewSchemaValidator(...).Validate; each recorded event is "
                              "evaluated by TLC with JsonSchema!Valid (draft 4, exact decimal arithmetic). pairwise = unions of two variants of different "
                              "keyword groups (10 groups) x 62 instances; random = seeded random compositions with definitions/$ref. "
                              "distinct = distinct (schema text, instance text); non-trivial = schema with >= 2 keywords. " + "; ".join(rule))
    check.coverage["exhaustive"] = False
    check.coverage["open_deviations_honoured"] = sorted(live)
    check.assumptions = ["regexp matches, registry format answers and code-point counts are supplied by the harness from the Go standard library / strfmt.Default",
                         "tagged encoder (harness/internal/enc) is trusted", "numbers <= 15 significant digits"]
    return check.finish()
