package main

import (
	"encoding/json"
	"flag"
	"fmt"
	"math/rand"
	"os"
)

func init() { commands["gen-multibad"] = genMultiBad }

// genMultiBad writes documents that break SEVERAL extra rules at once, in several definitions and operations: the
// inputs on which "stop at the first offender" loops meet randomised map iteration (C10).
func genMultiBad(args []string) error {
	fs := flag.NewFlagSet("gen-multibad", flag.ExitOnError)
	seed := fs.Int64("seed", 1, "seed")
	n := fs.Int("n", 12, "documents")
	out := fs.String("out", "", "output file")
	fs.Parse(args)
	r := rand.New(rand.NewSource(*seed))
	f, err := os.Create(*out)
	if err != nil {
		return err
	}
	defer f.Close()
	names := []string{"Thing", "thing", "Alpha", "alpha", "B", "b", "Zed", "Mid", "mid"}
	for i := 0; i < *n; i++ {
		defs := map[string]interface{}{}
		k := 2 + r.Intn(4)
		perm := r.Perm(len(names))
		for j := 0; j < k; j++ {
			d := map[string]interface{}{"type": "object", "properties": map[string]interface{}{"p": map[string]interface{}{"type": "string"}}}
			switch r.Intn(5) {
			case 0, 1: // required but not defined
				d["required"] = []interface{}{fmt.Sprintf("missing%d", r.Intn(3))}
			case 2: // bad default
				d["properties"].(map[string]interface{})["q"] = map[string]interface{}{"type": "integer", "default": "notanint"}
			case 3: // circular ancestry through allOf
				d = map[string]interface{}{"allOf": []interface{}{map[string]interface{}{"$ref": "#/definitions/" + names[perm[(j+1)%k]]}}}
			case 4: // duplicate inherited property
				d = map[string]interface{}{"allOf": []interface{}{map[string]interface{}{"$ref": "#/definitions/Base"}, map[string]interface{}{"type": "object", "properties": map[string]interface{}{"id": map[string]interface{}{"type": "string"}}}}}
				defs["Base"] = map[string]interface{}{"type": "object", "properties": map[string]interface{}{"id": map[string]interface{}{"type": "integer"}}}
			}
			defs[names[perm[j]]] = d
		}
		if i%2 == 0 {
			// two definitions whose names differ only by case (or sort next to each other), both offending the SAME rule
			tw := [][2]string{{"Thing", "thing"}, {"Alpha", "alpha"}, {"Mid", "mid"}, {"B", "b"}}[r.Intn(4)]
			for q, nm := range tw {
				if i%4 == 0 {
					defs[nm] = map[string]interface{}{"type": "object", "required": []interface{}{fmt.Sprintf("gone%d", q)}, "properties": map[string]interface{}{"p": map[string]interface{}{"type": "string"}}}
				} else {
					defs[nm] = map[string]interface{}{"allOf": []interface{}{map[string]interface{}{"$ref": "#/definitions/" + tw[1-q]}}}
				}
			}
		}
		paths := map[string]interface{}{}
		np := 2 + r.Intn(3)
		for j := 0; j < np; j++ {
			opid := fmt.Sprintf("op%d", r.Intn(2)) // duplicate operation ids are likely
			var ph string
			switch r.Intn(3) {
			case 0:
				ph = fmt.Sprintf("/a/{x%d}", j) // overlapping paths: /a/{x0}, /a/{x1}, ...
			case 1:
				ph = fmt.Sprintf("/b%d/{id}", j)
			default:
				ph = fmt.Sprintf("/c%d", j)
			}
			params := []interface{}{}
			if r.Intn(2) == 0 && ph[1] != 'c' { // sometimes the path parameter is declared, sometimes not
				nm := "id"
				if ph[1] == 'a' {
					nm = fmt.Sprintf("x%d", j)
				}
				params = append(params, map[string]interface{}{"name": nm, "in": "path", "required": r.Intn(4) > 0, "type": "string"})
			}
			if i%3 == 0 && r.Intn(3) == 0 {
				// array without items: also a violation of the Swagger-specific schema pass, so only in a third of the documents
				// (the others must get past the first pass when stopping early, to reach the later rules)
				params = append(params, map[string]interface{}{"name": "q", "in": "query", "type": "array"})
			}
			ref := names[perm[r.Intn(k)]]
			// offenders spread over several HTTP methods (the validator ranges over a map keyed by method)
			item := map[string]interface{}{}
			for _, m := range [][]string{{"get"}, {"post"}, {"get", "put"}, {"delete", "post"}}[r.Intn(4)] {
				mp := append([]interface{}{}, params...)
				if i%3 == 0 && r.Intn(2) == 0 {
					mp = append(mp, map[string]interface{}{"name": "arr" + m, "in": "query", "type": "array"})
				}
				if i%3 == 1 {
					// offenders of the parameter rules only (the schema pass is clean): a path parameter that is not in the path,
					// different under every method
					mp = append(mp, map[string]interface{}{"name": "ghost" + m + fmt.Sprint(j), "in": "path", "required": true, "type": "string"})
				}
				id := opid
				if m != "get" {
					id = fmt.Sprintf("%s%s%d", opid, m, j)
				}
				item[m] = map[string]interface{}{"operationId": id, "parameters": mp,
					"responses": map[string]interface{}{"200": map[string]interface{}{"description": "ok", "schema": map[string]interface{}{"$ref": "#/definitions/" + ref}}}}
			}
			paths[ph] = item
		}
		doc := map[string]interface{}{"swagger": "2.0", "info": map[string]interface{}{"title": "multi", "version": "1"}, "paths": paths, "definitions": defs}
		b, _ := json.Marshal(doc)
		f.Write(append(b, '\n'))
	}
	return nil
}
