package main

import (
	"encoding/json"
	"flag"
	"math/rand"
	"path/filepath"
	"strings"

	"github.com/go-openapi/spec"
	"github.com/go-openapi/strfmt"
	"github.com/go-openapi/validate"
	"github.com/go-openapi/validate/post"

	"verifharness/internal/enc"
	"verifharness/internal/gen"
)

func init() { commands["drive-post"] = drivePost }

// postSchema builds object schemas with defaults / undescribed-member opportunities at depth 1-3 under each
// composition construct.
func postSchema(r *rand.Rand, d int) gen.M {
	p := func(x float64) bool { return r.Float64() < x }
	leaf := func() gen.M {
		switch r.Intn(8) {
		case 6: // defaults that are the zero value of their Go type are defaults too
			return []gen.M{{"type": "boolean", "default": false}, {"type": "integer", "default": json.Number("0")}, {"type": "string", "default": ""},
				{"type": "number", "default": json.Number("0.0")}, {"type": "array", "default": []interface{}{}}, {"type": "object", "default": gen.M{}}}[r.Intn(6)]
		case 7:
			return []gen.M{{"type": "boolean", "default": true}, {"type": "array", "default": []interface{}{"a", "b"}}, {"type": "object", "default": gen.M{"l": []interface{}{json.Number("1"), json.Number("2")}}},
				{"default": []interface{}{[]interface{}{"x"}, gen.M{"k": []interface{}{nil}}}}}[r.Intn(4)]
		case 4:
			return gen.M{"default": json.Number("5")} // untyped: an explicit null is a valid, PRESENT value
		case 5:
			return gen.M{"type": []interface{}{"string", "null"}, "default": "x"}
		case 0:
			return gen.M{"type": "integer", "default": json.Number([]string{"1", "2", "7"}[r.Intn(3)])}
		case 1:
			return gen.M{"type": "string", "default": gen.Strs[1+r.Intn(4)]}
		case 2:
			return gen.M{"type": "string"}
		default:
			return gen.M{"type": "integer"}
		}
	}
	var obj func(d int) gen.M
	sub := func(d int) gen.M {
		if d <= 0 || p(0.5) {
			return leaf()
		}
		if p(0.25) {
			return gen.M{"type": "array", "items": obj(d - 1)}
		}
		if p(0.12) { // arrays directly inside arrays, tuple positions holding arrays
			if p(0.5) {
				return gen.M{"type": "array", "items": gen.M{"type": "array", "items": obj(d - 1)}}
			}
			return gen.M{"type": "array", "items": []interface{}{obj(d - 1), gen.M{"type": "array", "items": obj(d - 1)}}}
		}
		return obj(d - 1)
	}
	obj = func(d int) gen.M {
		s := gen.M{"type": "object"}
		props := gen.M{}
		for i := 1 + r.Intn(3); i > 0; i-- {
			props[gen.Keys[r.Intn(len(gen.Keys))]] = sub(d)
		}
		if p(0.2) { // a member checked by a format under "not" (a caller-supplied checker may panic there)
			props["nf"] = gen.M{"not": gen.M{"type": "string", "format": "date"}}
		}
		s["properties"] = props
		if p(0.35) {
			s["patternProperties"] = gen.M{gen.Pats[r.Intn(3)]: sub(d)}
		}
		if p(0.45) {
			if p(0.4) {
				s["additionalProperties"] = sub(d)
			} else {
				s["additionalProperties"] = p(0.4)
			}
		}
		if d > 0 {
			if p(0.3) {
				s["allOf"] = []interface{}{obj(d - 1), gen.M{"properties": gen.M{gen.Keys[r.Intn(len(gen.Keys))]: leaf()}}}
			}
			if p(0.25) {
				s["anyOf"] = []interface{}{gen.M{"required": []interface{}{"zz"}, "properties": gen.M{"c": leaf()}}, obj(d - 1), gen.M{"properties": gen.M{"b": leaf()}}}
			}
			if p(0.2) {
				s["oneOf"] = []interface{}{gen.M{"required": []interface{}{"a"}, "properties": gen.M{"xa": leaf()}}, gen.M{"not": gen.M{"required": []interface{}{"a"}}, "properties": gen.M{"b": leaf()}}}
			}
		}
		return s
	}
	return obj(d)
}

// comboSchema: several composition keywords on ONE schema object, each with a single always-applicable alternative that
// describes members of its own (with defaults), at the root, below a property and below array items.
func comboSchema(r *rand.Rand) gen.M {
	alt := func(name string) gen.M {
		return gen.M{"properties": gen.M{name: gen.M{"type": "integer", "default": json.Number("1")}, name + "s": gen.M{"type": "string", "default": "d"}}}
	}
	level := func() gen.M {
		m := gen.M{"type": "object", "properties": gen.M{"c": gen.M{"type": "string"}}}
		switch r.Intn(4) {
		case 0:
			m["anyOf"], m["oneOf"] = []interface{}{alt("a")}, []interface{}{alt("b")}
		case 1:
			m["anyOf"], m["allOf"] = []interface{}{alt("a")}, []interface{}{alt("b"), alt("xa")}
		case 2:
			m["oneOf"], m["allOf"] = []interface{}{alt("a")}, []interface{}{alt("b")}
		default:
			m["anyOf"], m["oneOf"], m["allOf"] = []interface{}{alt("a")}, []interface{}{alt("b")}, []interface{}{alt("xa")}
		}
		return m
	}
	root := level()
	root["properties"].(gen.M)["n"] = level()
	root["properties"].(gen.M)["l"] = gen.M{"type": "array", "items": level()}
	return root
}

// comboInstance: members described through each composition keyword, and undescribed ones, at every level of comboSchema
func comboInstance(r *rand.Rand) interface{} {
	lvl := func() map[string]interface{} {
		m := map[string]interface{}{}
		for _, k := range []string{"a", "b", "xa"} {
			if r.Intn(3) > 0 {
				m[k] = 2.0
			}
			if r.Intn(3) == 0 {
				m[k+"s"] = "v"
			}
		}
		if r.Intn(2) == 0 {
			m["c"] = "s"
		}
		if r.Intn(2) == 0 {
			m["undescribed"] = true
		}
		return m
	}
	root := lvl()
	if r.Intn(4) > 0 {
		root["n"] = lvl()
	}
	if r.Intn(4) > 0 {
		root["l"] = []interface{}{lvl(), lvl()}
	}
	return root
}

func drivePost(args []string) error {
	fs := flag.NewFlagSet("drive-post", flag.ExitOnError)
	seed := fs.Int64("seed", 1, "seed")
	n := fs.Int("n", 1000, "schemas")
	per := fs.Int("per", 3, "instances per schema")
	what := fs.String("what", "defaults", "defaults | prune")
	out := fs.String("out", "", "output directory")
	fs.Parse(args)
	r := rand.New(rand.NewSource(*seed))
	reg := strfmt.Default
	w := newChunkWriter(*out, 1500)
	defer w.close()
	distinct := map[string]struct{}{}
	nontrivial := map[string]struct{}{}
	var samples []interface{}
	valid := 0
	for i := 0; i < *n; i++ {
		s := postSchema(r, 3)
		combo := i%7 == 5
		if combo {
			s = comboSchema(r)
		}
		if i%9 == 0 { // a root array of arrays of objects
			s = gen.M{"type": "array", "items": gen.M{"type": "array", "items": postSchema(r, 2)}}
		}
		if i%7 == 0 {
			// defaults behind a definition
			if props, ok := s["properties"].(gen.M); ok {
				s["definitions"] = gen.M{"d1": postSchema(r, 1)}
				props["c"] = gen.M{"$ref": "#/definitions/d1"}
			}
		}
		st, _ := json.Marshal(s)
		defs, _ := s["definitions"].(map[string]interface{})
		var shared *validate.SchemaValidator // a validator built once and reused for the later instances of this schema (no recycling)
		var acc *validate.Result             // batch use: results of several instances merged into one, post-processed after each merge
		for j := 0; j < *per; j++ {
			inst := gen.InstFor(r, s, defs, 5, 0.03)
			if combo && i%9 != 0 {
				inst = comboInstance(r)
			}
			if *what == "defaults" {
				dropSome(r, inst)
			}
			if m, ok := inst.(map[string]interface{}); ok {
				if pr, ok := s["properties"].(gen.M); ok {
					if _, has := pr["nf"]; has {
						m["nf"] = "zz" // a string that is not a date: valid against the "not"
					}
				}
			}
			it, _ := json.Marshal(inst)
			sg, _ := decodeNumber(st)
			ig, _ := decodeNumber(it)
			ctx := &enc.Ctx{Reg: reg}
			ctx.Collect(sg)
			ev := enc.M{"ev": "post", "n": w.n + 1, "root": ctx.Root(sg.(map[string]interface{})), "i": ctx.Value(ig), "known": ctx.Known(), "verdict": "invalid"}
			var resultJSON []byte
			status := protect(func() string {
				var sch spec.Schema
				if err := json.Unmarshal(st, &sch); err != nil {
					return "schemaerr"
				}
				data, _ := decodeFloat(it)
				if (i+j)%2 == 0 {
					// ordinary mixed use: a one-shot validation of the same pair first (it leaves pooled results behind)
					var sch0 spec.Schema
					_ = json.Unmarshal(st, &sch0)
					data0, _ := decodeFloat(it)
					_ = validate.AgainstSchema(&sch0, data0, reg)
				}
				var res *validate.Result
				if (i+j)%5 == 4 && !strings.Contains(string(st), `"items"`) {
					// the Swagger-flavoured schema validation is a public option too (it only adds checks on members named like keywords)
					res = validate.NewSchemaValidator(&sch, nil, "", reg, validate.SwaggerSchema(true)).Validate(data)
				} else if (i+j)%5 == 3 {
					// a validator built from the options of another one (public round trip through SchemaValidatorOptions.Options())
					first := validate.NewSchemaValidator(&sch, nil, "", reg, validate.WithRecycleValidators(true))
					res = validate.NewSchemaValidator(&sch, nil, "", reg, first.Options.Options()...).Validate(data)
				} else if j == 0 || i%2 == 1 {
					res = validate.NewSchemaValidator(&sch, nil, "", reg).Validate(data)
				} else {
					// which anyOf / oneOf alternative describes the data does not depend on what the validator saw before
					if shared == nil {
						shared = validate.NewSchemaValidator(&sch, nil, "", trapReg{reg})
						// a first use that ends with a panic of the format checker (recovered by the caller) must leave nothing behind
						if m, ok := deepCopy(data).(map[string]interface{}); ok {
							if _, has := m["nf"]; has {
								m["nf"] = trapString
								protect(func() string { shared.Validate(m); return "" })
							}
						}
					}
					res = shared.Validate(data)
				}
				if !res.IsValid() {
					return "invalid"
				}
				ev["verdict"] = "valid"
				if *what != "defaults" {
					// Prune starts from the result's own root data, so a merged result is not a batch for it
				} else if j%3 == 2 && acc != nil {
					// the accumulated result was already post-processed once (its field view is materialised); merging a
					// further valid result into it and post-processing again must treat the new data like a one-shot run
					acc.Merge(res)
					res = acc
				} else if j%3 == 1 {
					acc = res
				}
				if *what == "defaults" {
					post.ApplyDefaults(res)
					resultJSON, _ = json.Marshal(data)
					g, _ := decodeNumber(resultJSON)
					ev["defaulted"] = ctx.Value(g)
				} else {
					post.Prune(res)
					resultJSON, _ = json.Marshal(data)
					g, _ := decodeNumber(resultJSON)
					ev["pruned"] = ctx.Value(g)
					// validating and pruning the pruned data again
					var sch2 spec.Schema
					_ = json.Unmarshal(st, &sch2)
					data2, _ := decodeFloat(resultJSON)
					res2 := validate.NewSchemaValidator(&sch2, nil, "", reg).Validate(data2)
					post.Prune(res2)
					again, _ := json.Marshal(data2)
					g2, _ := decodeNumber(again)
					ev["pruned2"] = ctx.Value(g2)
				}
				return "ok"
			})
			if status != "ok" && status != "invalid" {
				ev["verdict"] = status
			}
			d := digest(string(st), string(it))
			distinct[d] = struct{}{}
			if status == "ok" {
				valid++
				if string(resultJSON) != string(it) {
					nontrivial[d] = struct{}{}
					if len(samples) < 4 && len(it) < 300 {
						samples = append(samples, enc.M{"schema": json.RawMessage(st), "instance": json.RawMessage(it), "result": json.RawMessage(resultJSON)})
					}
				}
			}
			if err := w.write(ev, enc.M{"schema": json.RawMessage(st), "inst": json.RawMessage(it), "result": json.RawMessage(resultJSON), "what": *what}); err != nil {
				return err
			}
		}
	}
	w.close()
	return writeJSONFile(filepath.Join(*out, "meta.json"), map[string]interface{}{"events": w.n, "valid": valid, "distinct": len(distinct), "distinct_nontrivial": len(nontrivial), "samples": samples})
}

// dropSome removes members at random (so that defaults have something to fill) and sets a few to explicit null.
func dropSome(r *rand.Rand, v interface{}) {
	switch x := v.(type) {
	case map[string]interface{}:
		for k, c := range x {
			switch r.Intn(7) {
			case 0, 1:
				delete(x, k)
				continue
			case 2:
				x[k] = nil // present, with an explicit null
				continue
			}
			dropSome(r, c)
		}
	case []interface{}:
		for _, c := range x {
			dropSome(r, c)
		}
	}
}
