package hook

import (
	"reflect"
	"sort"
	"sync"
	"sync/atomic"
	"unsafe"
)

// PoolEvent is one borrow / redeem observed at a pool hook, or a call boundary written by the driver.
type PoolEvent struct {
	Ticket  uint64
	Kind    string // "B", "R", "call", "ret", "recover", "reset"
	Pool    string
	Obj     int
	G       int
	Touched bool // R only, poison mode: the object was written since it was last poisoned
	Empty   bool // R only: the object is the shared immutable empty result
	Call    int
	Class   string
	Out     string
	Ref     string
}

// Recorder implements the pool hooks: it records events, poisons redeemed objects ("poison" mode) or drops
// them so that nothing is ever pooled ("fresh" mode: the in-process equivalent of a fresh process with recycling off).
type Recorder struct {
	mu      sync.Mutex
	events  []PoolEvent
	ids     map[unsafe.Pointer]int
	ticket  uint64
	mode    atomic.Value // string
	record  atomic.Bool
	workers sync.Map // goroutine id -> worker index
	Empty   unsafe.Pointer
	Redeems atomic.Int64
	// out: objects currently borrowed, known only in the validatedebug build (every Get reports a borrow)
	trackBorrows atomic.Bool
	out          map[unsafe.Pointer]struct{}
	Quarantined  atomic.Int64
}

func NewRecorder() *Recorder {
	r := &Recorder{ids: map[unsafe.Pointer]int{}, out: map[unsafe.Pointer]struct{}{}}
	r.mode.Store("plain")
	return r
}

// SetMode selects "plain" (observe only), "poison" or "fresh".
func (r *Recorder) SetMode(m string) { r.mode.Store(m) }
func (r *Recorder) Mode() string     { return r.mode.Load().(string) }

// Recording switches event recording on or off.
func (r *Recorder) Recording(on bool) { r.record.Store(on) }

// Register binds the calling goroutine to a worker index.
func (r *Recorder) Register(idx int) { r.workers.Store(Goid(), idx) }

func (r *Recorder) worker() int {
	if v, ok := r.workers.Load(Goid()); ok {
		return v.(int)
	}
	return 0
}

func ptrOf(obj any) unsafe.Pointer {
	v := reflect.ValueOf(obj)
	if v.Kind() != reflect.Ptr || v.IsNil() {
		return nil
	}
	return v.UnsafePointer()
}

func (r *Recorder) idOf(p unsafe.Pointer) int {
	id, ok := r.ids[p]
	if !ok {
		id = len(r.ids) + 1
		r.ids[p] = id
	}
	return id
}

// OnRedeem is installed as validate.VerifOnRedeem.
func (r *Recorder) OnRedeem(pool string, obj any) bool {
	r.Redeems.Add(1)
	mode := r.Mode()
	p := ptrOf(obj)
	empty := p != nil && p == r.Empty
	touched := true
	if mode == "poison" && !empty && p != nil {
		untouched := Poison(obj)
		touched = !untouched
	}
	// A double redeem is recorded like any other redeem (the monitor reports it), but the object is not handed to the pool a
	// second time: a pool holding the same object twice makes later calls share it, and the process may then crash or hang
	// before the evidence is written. Quarantining changes nothing before the violation has happened.
	quarantine := mode == "poison" && !touched && !empty && p != nil
	if r.trackBorrows.Load() && p != nil && !empty {
		r.mu.Lock()
		if _, ok := r.out[p]; ok {
			delete(r.out, p)
		} else {
			quarantine = true
		}
		r.mu.Unlock()
	}
	if r.record.Load() {
		t := atomic.AddUint64(&r.ticket, 1)
		g := r.worker()
		r.mu.Lock()
		r.events = append(r.events, PoolEvent{Ticket: t, Kind: "R", Pool: pool, Obj: r.idOf(p), G: g, Touched: touched, Empty: empty})
		r.mu.Unlock()
	}
	if quarantine {
		r.Quarantined.Add(1)
		return true
	}
	return mode == "fresh"
}

// TrackBorrows switches on exact ownership tracking (validatedebug build only: every Get reports a borrow).
func (r *Recorder) TrackBorrows(on bool) {
	r.mu.Lock()
	r.out = map[unsafe.Pointer]struct{}{}
	r.mu.Unlock()
	r.trackBorrows.Store(on)
}

// OnBorrow is installed as validate.VerifOnBorrow (validatedebug build).
func (r *Recorder) OnBorrow(pool string, obj any) {
	if r.trackBorrows.Load() {
		if p := ptrOf(obj); p != nil {
			r.mu.Lock()
			r.out[p] = struct{}{}
			r.mu.Unlock()
		}
	}
	if !r.record.Load() {
		return
	}
	t := atomic.AddUint64(&r.ticket, 1)
	g := r.worker()
	p := ptrOf(obj)
	r.mu.Lock()
	r.events = append(r.events, PoolEvent{Ticket: t, Kind: "B", Pool: pool, Obj: r.idOf(p), G: g})
	r.mu.Unlock()
}

// Mark records a call boundary event.
func (r *Recorder) Mark(e PoolEvent) {
	if !r.record.Load() {
		return
	}
	e.Ticket = atomic.AddUint64(&r.ticket, 1)
	if e.G == 0 {
		e.G = r.worker()
	}
	r.mu.Lock()
	r.events = append(r.events, e)
	r.mu.Unlock()
}

// Drain returns the events recorded so far in ticket order and forgets them (object ids are renumbered from 1).
func (r *Recorder) Drain() []PoolEvent {
	r.mu.Lock()
	ev := r.events
	r.events = nil
	r.ids = map[unsafe.Pointer]int{}
	r.mu.Unlock()
	sort.Slice(ev, func(i, j int) bool { return ev[i].Ticket < ev[j].Ticket })
	return ev
}
