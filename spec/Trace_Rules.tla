----------------------------- MODULE Trace_Rules -----------------------------
(* C03 trace specification: one event = one abstract document rendered to Swagger JSON and validated with one option combination. *)
EXTENDS Json, TLC, SwaggerRules
CONSTANT OpenDevs
Trace == ndJsonDeserialize("events.ndjson")
VARIABLES l, fails
vars == <<l, fails>>
Check(ev, k) ==
  LET broken == Broken(ev.doc, ev.strict)
      want == broken # {} IN
  IF ev.out # "returned" THEN {[l |-> k, n |-> ev.n, clause |-> "validation did not return", want |-> "returned", got |-> ev.out, dev |-> ""]}
  ELSE IF ev.haserrors = want THEN {}
  ELSE {[l |-> k, n |-> ev.n,
         clause |-> IF want THEN "a broken rule is not reported: " \o ToString(broken) ELSE "errors are reported although every documented rule holds",
         want |-> ToString(want), got |-> ToString(ev.haserrors),
         dev |-> IF ~want /\ "KeywordNamedMember" \in OpenDevs /\ ev.keywordName THEN "KeywordNamedMember" ELSE ""]}
Init == l = 1 /\ fails = {}
Next == /\ l <= Len(Trace)
        /\ l' = l + 1
        /\ fails' = fails \cup Check(Trace[l], l)
Spec == Init /\ [][Next]_vars
RECURSIVE SetToSeq(_)
SetToSeq(X) == IF X = {} THEN <<>> ELSE LET x == CHOOSE x \in X : TRUE IN <<x>> \o SetToSeq(X \ {x})
Done == l = Len(Trace) + 1 =>
          /\ ndJsonSerialize("fails.ndjson", SetToSeq(fails))
          /\ PrintT(<<"TRACE-DONE", Len(Trace), Cardinality(fails)>>)
=============================================================================
