----------------------------- MODULE Gen_Result -----------------------------
(***************************************************************************)
(* Behaviour generator (spec -> code): random behaviours of Result.tla are  *)
(* written as ND-JSON, one file per behaviour, one line per step carrying   *)
(* the operation and the complete abstract state after it.  The Go harness  *)
(* steps real validate.Result objects through them and compares the         *)
(* projection of EVERY live result after EVERY step.                        *)
(* Run with: -simulate num=N -depth D                                       *)
(***************************************************************************)
EXTENDS Result, Json, TLC
CONSTANTS Depth, MaxMC
VARIABLE hist
SimInit == Init /\ hist = <<>>
Step == [op |-> op', alive |-> alive',
         state |-> [r \in RIds |-> [errs |-> res'[r].errs, warns |-> res'[r].warns, mc |-> res'[r].mc, q |-> Queries(res'[r])]]]
SimNext == /\ Len(hist) < Depth
           /\ Next
           /\ \A r \in RIds : res'[r].mc <= MaxMC        \* keep counts inside TLC's integers
           /\ alive' # {}
           /\ hist' = Append(hist, Step)
SimSpec == SimInit /\ [][SimNext]_<<vars, hist>>
Emit == Len(hist) = Depth =>
          ndJsonSerialize("beh_" \o ToString(TLCGet("stats").traces) \o ".ndjson", hist)
=============================================================================
