------------------------------- MODULE Gen_Seq -------------------------------
(* Value-index sequences for long-lived handles (spec -> code): every sequence of length <= MaxLen over 1..NVal. *)
EXTENDS Json, TLC, Sequences, Integers, FiniteSets
CONSTANTS NVal, MaxLen
Seqs == UNION {[1..n -> 1..NVal] : n \in 1..MaxLen}
RECURSIVE SetToSeq(_)
SetToSeq(S) == IF S = {} THEN <<>> ELSE LET x == CHOOSE x \in S : TRUE IN <<x>> \o SetToSeq(S \ {x})
VARIABLE done
Init == done = FALSE
Next == ~done /\ done' = TRUE
Spec == Init /\ [][Next]_done
Emit == done => ndJsonSerialize("sequences.ndjson", SetToSeq(Seqs))
=============================================================================
