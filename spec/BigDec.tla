------------------------------- MODULE BigDec -------------------------------
(***************************************************************************)
(* Exact decimal arithmetic on digit sequences.  TLC integers are 32 bit,   *)
(* JSON numbers within +-2^53 with 15 significant digits are not; no        *)
(* floating point exists anywhere in the oracle.                            *)
(*                                                                          *)
(* A number is a record [s |-> -1|0|1, d |-> <<digits, most significant     *)
(* first>>, f |-> number of fractional digits]; its value is                *)
(* s * int(d) * 10^-f.  Numbers are normalised by the encoder: no leading   *)
(* zero digit, no trailing fractional zero, zero is [s|->0, d|-><<>>, f|->0] *)
(***************************************************************************)
EXTENDS Integers, Sequences

RECURSIVE StripZ(_)
StripZ(x) == IF Len(x) > 0 /\ x[1] = 0 THEN StripZ(Tail(x)) ELSE x

Zeros(k) == [i \in 1..k |-> 0]

RECURSIVE LexCmp(_,_,_)
LexCmp(x, y, i) == IF i > Len(x) THEN 0
                   ELSE IF x[i] < y[i] THEN -1
                   ELSE IF x[i] > y[i] THEN 1
                   ELSE LexCmp(x, y, i+1)

\* compare two magnitudes (digit sequences, possibly with leading zeros)
CmpD(x0, y0) == LET x == StripZ(x0)  y == StripZ(y0) IN
                IF Len(x) < Len(y) THEN -1 ELSE IF Len(x) > Len(y) THEN 1 ELSE LexCmp(x, y, 1)

\* x - y for magnitudes with x >= y
RECURSIVE SubAt(_,_,_,_,_)
SubAt(x, y, i, borrow, acc) ==
  IF i = 0 THEN acc
  ELSE LET d == x[i] - y[i] - borrow IN
       IF d < 0 THEN SubAt(x, y, i-1, 1, <<d+10>> \o acc)
                ELSE SubAt(x, y, i-1, 0, <<d>> \o acc)
SubD(x0, y0) == LET x == StripZ(x0)
                    y == Zeros(Len(x) - Len(StripZ(y0))) \o StripZ(y0)
                IN StripZ(SubAt(x, y, Len(x), 0, <<>>))

RECURSIVE Reduce(_,_)
Reduce(r, b) == IF CmpD(r, b) >= 0 THEN Reduce(SubD(r, b), b) ELSE r
RECURSIVE RemAt(_,_,_,_)
RemAt(a, b, i, r) == IF i > Len(a) THEN r
                     ELSE RemAt(a, b, i+1, Reduce(StripZ(Append(r, a[i])), b))
\* remainder of magnitude a by magnitude b (b # 0), by schoolbook long division
RemD(a, b) == RemAt(a, StripZ(b), 1, <<>>)

Max(a, b) == IF a > b THEN a ELSE b
\* magnitude of n scaled to f fractional digits (f >= n.f)
ScaledD(n, f) == n.d \o Zeros(f - n.f)

Cmp(a, b) ==
  IF a.s # b.s THEN (IF a.s < b.s THEN -1 ELSE 1)
  ELSE IF a.s = 0 THEN 0
  ELSE LET f == Max(a.f, b.f)
           c == CmpD(ScaledD(a, f), ScaledD(b, f))
       IN a.s * c
Eq(a, b) == Cmp(a, b) = 0
Lt(a, b) == Cmp(a, b) < 0
Le(a, b) == Cmp(a, b) <= 0
IsZero(a) == a.s = 0
IsInt(a) == a.f = 0            \* numbers are normalised: no trailing fractional zeros
IsPos(a) == a.s = 1
Neg(a) == [a EXCEPT !.s = 0 - a.s]
Abs(a) == [a EXCEPT !.s = IF a.s = 0 THEN 0 ELSE 1]

\* a is an integer multiple of b (b > 0)
IsMultiple(a, b) ==
  \/ a.s = 0
  \/ LET f == Max(a.f, b.f) IN StripZ(RemD(ScaledD(a, f), ScaledD(b, f))) = <<>>

\* number of significant digits, integer part digits
SigDigits(a) == Len(a.d)
\* small naturals as BigDec
RECURSIVE DigitsOf(_)
DigitsOf(n) == IF n < 10 THEN <<n>> ELSE Append(DigitsOf(n \div 10), n % 10)
FromNat(n) == IF n = 0 THEN [s |-> 0, d |-> <<>>, f |-> 0] ELSE [s |-> 1, d |-> DigitsOf(n), f |-> 0]
FromInt(n) == IF n < 0 THEN Neg(FromNat(0 - n)) ELSE FromNat(n)
\* a * 10^k  (k >= 0), still normalised
Shift(a, k) == IF a.s = 0 THEN a
               ELSE IF k <= a.f THEN [a EXCEPT !.f = a.f - k]
               ELSE [a EXCEPT !.d = a.d \o Zeros(k - a.f), !.f = 0]
TwoPow53 == [s |-> 1, d |-> <<9,0,0,7,1,9,9,2,5,4,7,4,0,9,9,2>>, f |-> 0]
=============================================================================
