package main

import (
	"encoding/json"
	"flag"
	"math/rand"
	"path/filepath"
	"time"

	oaerrors "github.com/go-openapi/errors"
	"github.com/go-openapi/spec"
	"github.com/go-openapi/strfmt"
	"github.com/go-openapi/validate"

	"verifharness/internal/enc"
	"verifharness/internal/gen"
)

func init() { commands["drive-errors"] = driveErrors }

// errView projects an error list for the specification: message ids (interned per event, in order) and the
// percent-encoded names of the field-level errors.
func errView(errs []error, intern map[string]int) (msgs []interface{}, names []interface{}) {
	msgs, names = []interface{}{}, []interface{}{}
	for _, e := range errs {
		if e == nil {
			msgs = append(msgs, 0)
			continue
		}
		m := e.Error()
		id, ok := intern[m]
		if !ok {
			id = len(intern) + 1
			intern[m] = id
		}
		msgs = append(msgs, id)
		if v, ok := e.(*oaerrors.Validation); ok {
			names = append(names, enc.Pct(v.Name))
		}
	}
	return
}

// errorsCase records, for one (schema, instance, root path): the composite error of the one-shot entry point
// and the error list of a validator object built with the root path.
func errorsCase(idx int, schemaText, instText []byte, root string, reg strfmt.Registry) (enc.M, error) {
	sg, err := decodeNumber(schemaText)
	if err != nil {
		return nil, err
	}
	ig, err := decodeNumber(instText)
	if err != nil {
		return nil, err
	}
	ctx := &enc.Ctx{Reg: reg}
	ctx.Collect(sg)
	ev := enc.M{"ev": "errors", "n": idx, "root": ctx.Root(sg.(map[string]interface{})), "i": ctx.Value(ig), "known": ctx.Known(), "rootp": enc.Pct(root)}
	intern := map[string]int{}
	ev["o1"], ev["o2"] = "", ""
	ev["code1"] = 0
	ev["msgs1"], ev["names1"], ev["msgs2"], ev["names2"] = []interface{}{}, []interface{}{}, []interface{}{}, []interface{}{}
	st, _ := guarded(30*time.Second, func() {
		var s spec.Schema
		_ = json.Unmarshal(schemaText, &s)
		data, _ := decodeFloat(instText)
		err := validate.AgainstSchema(&s, data, reg)
		if err == nil {
			ev["o1"] = "valid"
			return
		}
		ev["o1"] = "invalid"
		if ce, ok := err.(*oaerrors.CompositeError); ok {
			ev["code1"] = int(ce.Code())
			ev["msgs1"], ev["names1"] = errView(ce.Errors, intern)
		} else {
			ev["code1"] = -1
		}
	})
	if st != "" {
		ev["o1"] = st
	}
	st, _ = guarded(30*time.Second, func() {
		var s spec.Schema
		_ = json.Unmarshal(schemaText, &s)
		data, _ := decodeFloat(instText)
		res := validate.NewSchemaValidator(&s, nil, root, reg).Validate(data)
		if res.IsValid() {
			ev["o2"] = "valid"
		} else {
			ev["o2"] = "invalid"
		}
		ev["msgs2"], ev["names2"] = errView(res.Errors, intern)
		ev["haserr2"] = res.HasErrors()
		ev["aserrnil2"] = res.AsError() == nil
	})
	if st != "" {
		ev["o2"] = st
	}
	// the same validation with an empty root, to compare message sets with the one-shot entry point
	st, _ = guarded(30*time.Second, func() {
		var s spec.Schema
		_ = json.Unmarshal(schemaText, &s)
		data, _ := decodeFloat(instText)
		res := validate.NewSchemaValidator(&s, nil, "", reg).Validate(data)
		ev["msgs0"], _ = errView(res.Errors, intern)
	})
	if st != "" {
		ev["msgs0"] = []interface{}{-1}
	}
	return ev, nil
}

func driveErrors(args []string) error {
	fs := flag.NewFlagSet("drive-errors", flag.ExitOnError)
	mode := fs.String("mode", "nesting", "nesting | random | pairwise")
	seed := fs.Int64("seed", 1, "seed")
	n := fs.Int("n", 1000, "number of schemas")
	per := fs.Int("per", 3, "instances per schema")
	depth := fs.Int("depth", 3, "depth")
	out := fs.String("out", "", "output directory")
	chunk := fs.Int("chunk", 3000, "events per chunk")
	fs.Parse(args)
	reg := strfmt.Default
	w := newChunkWriter(*out, *chunk)
	defer w.close()
	r := rand.New(rand.NewSource(*seed))
	roots := []string{"", "root", "a.b", "r%s"}
	distinct := map[string]struct{}{}
	nontrivial := map[string]struct{}{}
	var samples []interface{}
	emit := func(st, it []byte) error {
		root := roots[r.Intn(len(roots))]
		ev, err := errorsCase(w.n+1, st, it, root, reg)
		if err != nil {
			return err
		}
		d := digest(string(st), string(it), root)
		distinct[d] = struct{}{}
		if ev["o2"] == "invalid" {
			nontrivial[d] = struct{}{}
			if len(samples) < 5 && w.n%53 == 0 {
				samples = append(samples, map[string]interface{}{"schema": json.RawMessage(st), "instance": json.RawMessage(it), "root": root, "names": ev["names2"]})
			}
		}
		return w.write(ev, map[string]interface{}{"schema": json.RawMessage(st), "inst": json.RawMessage(it), "rootpath": root})
	}
	for i := 0; i < *n; i++ {
		var s gen.M
		switch *mode {
		case "nesting":
			s = gen.NestingSchema(r, *depth)
		case "pairwise":
			all := gen.PairwiseSchemas()
			s = all[r.Intn(len(all))]
		default:
			s = gen.RRoot(r, *depth, gen.SchemaOpts{Format: true})
		}
		st, _ := json.Marshal(s)
		defs, _ := s["definitions"].(map[string]interface{})
		for j := 0; j < *per; j++ {
			var inst interface{}
			if *mode == "pairwise" {
				if err := emit(st, []byte(gen.PairwiseInstances[r.Intn(len(gen.PairwiseInstances))])); err != nil {
					return err
				}
				continue
			}
			if j%3 == 2 {
				inst = gen.RInst(r, *depth)
			} else {
				inst = gen.InstFor(r, s, defs, *depth+1, 0.15)
			}
			it, _ := json.Marshal(inst)
			if err := emit(st, it); err != nil {
				return err
			}
		}
	}
	w.close()
	return writeJSONFile(filepath.Join(*out, "meta.json"), map[string]interface{}{
		"events": w.n, "distinct": len(distinct), "distinct_nontrivial": len(nontrivial), "samples": samples, "mode": *mode,
	})
}
