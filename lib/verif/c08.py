"""C08 - long-lived validators are stateless: reuse gives identical results."""
import os
from . import common, schemafam


def run(tier, seed):
    check = common.Check("C08", tier, seed, "model_checking")
    quick = tier == "quick"
    vh = common.build_vh()
    wd = common.workdir("C08-genseq")
    g = common.tlc_or_inconclusive(wd, "Gen_Seq", "SPECIFICATION Spec\nINVARIANT Emit\nCONSTANTS\n  NVal = 6\n  MaxLen = %d\nCHECK_DEADLOCK FALSE\n" % (2 if quick else 3), timeout=1800)
    check.add_tlc(g)
    on_fail = schemafam.simple_violations(check, "longlived")
    cfg_devs = []
    meta = schemafam.run_traces(check, vh, "handles", ["drive-longlived", "-seed", seed, "-handles", 45 if quick else 600, "-seqs", os.path.join(wd, "sequences.ndjson"), "-long", 50 if quick else 200],
                                "Trace_Api", cfg_devs, on_fail)
    check.coverage["evaluations"] = meta["calls"]
    check.coverage["rule"] = ("handles = schema / parameter / header validators built WITHOUT recycling from seeded definitions (nested objects, arrays of arrays with per-element validators, formats); "
                              "6 values per handle incl. nil, arrays with empty first rows, and a value that makes the caller-supplied format checker panic (recovered). Every value-index sequence of "
                              "length <= %d (TLC, Gen_Seq) plus one seeded sequence of length %d is run on ONE validator; each call's outcome (verdict + message set) is compared by Trace_Api.tla with a freshly "
                              "built validator and with the first time the same value was used. distinct = distinct (handle, value, sequence kind)." % (2 if quick else 3, 50 if quick else 200))
    check.assumptions = ["outcomes are compared as verdict + sorted message set digests computed by the harness"]
    return check.finish()
