------------------------------- MODULE Helpers -------------------------------
(***************************************************************************)
(* C14: textbook definitions of the exported value helpers, over typed Go   *)
(* values in the tagged encoding:                                           *)
(*   [k |-> "nil"]                      untyped nil                          *)
(*   [k |-> "typednil", of |-> kind]    nil pointer / slice / map            *)
(*   [k |-> <numeric kind>, num |-> BigDec]                                  *)
(*   [k |-> "string", b |-> <<bytes>>, low |-> <<bytes of the lower-cased>>] *)
(*   [k |-> "bool", v |-> BOOLEAN]                                           *)
(*   [k |-> "slice", e |-> <<values>>, et |-> element type]                  *)
(*   [k |-> "map", mk |-> <<keys>>, mv |-> <<values>>]                       *)
(*   [k |-> "ptr", to |-> value]                                             *)
(***************************************************************************)
EXTENDS Integers, Sequences, FiniteSets, BigDec, Utf8

NumKinds == {"int", "int8", "int16", "int32", "int64", "uint", "uint8", "uint16", "uint32", "uint64", "float32", "float64"}
IsNum(a) == a.k \in NumKinds

\* deep value equality; numerically equal numbers of different Go types are equal
RECURSIVE DeepEq(_, _)
DeepEq(a, b) ==
  IF IsNum(a) /\ IsNum(b) THEN Eq(a.num, b.num)
  ELSE /\ a.k = b.k
       /\ CASE a.k = "nil" -> TRUE
            [] a.k = "typednil" -> a.of = b.of
            [] a.k = "string" -> a.b = b.b
            [] a.k = "bool" -> a.v = b.v
            [] a.k = "slice" -> a.et = b.et /\ Len(a.e) = Len(b.e) /\ \A j \in 1..Len(a.e) : DeepEq(a.e[j], b.e[j])   \* et: element type of the slice
            [] a.k = "map" -> /\ Len(a.mk) = Len(b.mk)
                              /\ \A j \in 1..Len(a.mk) : \E q \in 1..Len(b.mk) : a.mk[j] = b.mk[q] /\ DeepEq(a.mv[j], b.mv[q])
            [] a.k = "ptr" -> DeepEq(a.to, b.to)
            [] OTHER -> FALSE
\* the same, but Go-type sensitive (what reflect.DeepEqual does): used to recognise the cross-type deviations
RECURSIVE StrictEq(_, _)
StrictEq(a, b) ==
  /\ a.k = b.k
  /\ IF IsNum(a) THEN Eq(a.num, b.num)
     ELSE CASE a.k = "slice" -> Len(a.e) = Len(b.e) /\ \A j \in 1..Len(a.e) : StrictEq(a.e[j], b.e[j])
            [] a.k = "map" -> Len(a.mk) = Len(b.mk) /\ \A j \in 1..Len(a.mk) : \E q \in 1..Len(b.mk) : a.mk[j] = b.mk[q] /\ StrictEq(a.mv[j], b.mv[q])
            [] a.k = "ptr" -> StrictEq(a.to, b.to)
            [] OTHER -> DeepEq(a, b)

FoldEq(a, b, caseSensitive) == DeepEq(a, b) \/ (~caseSensitive /\ a.k = "string" /\ b.k = "string" /\ a.low = b.low)

IsZeroValue(a) ==
  CASE a.k = "nil" -> TRUE
    [] a.k = "typednil" -> TRUE
    [] IsNum(a) -> a.num.s = 0
    [] a.k = "string" -> a.b = <<>>
    [] a.k = "bool" -> ~a.v
    [] OTHER -> FALSE        \* a non-nil slice, map or pointer is not the zero value of its type

\* TRUE = the helper returns an error
Fails(ev) ==
  CASE ev.fn = "MinLength" -> RuneCount(ev.s.b) < ev.limit
    [] ev.fn = "MaxLength" -> RuneCount(ev.s.b) > ev.limit
    [] ev.fn = "Pattern"   -> ev.fact # "match"                       \* an invalid pattern is an error for every string
    [] ev.fn = "MinItems"  -> ev.size < ev.limit
    [] ev.fn = "MaxItems"  -> ev.size > ev.limit
    [] ev.fn = "UniqueItems" -> ev.data.k = "slice" /\ \E a, b \in 1..Len(ev.data.e) : a < b /\ DeepEq(ev.data.e[a], ev.data.e[b])
    [] ev.fn = "Enum"      -> ~(\E j \in 1..Len(ev.enum) : DeepEq(ev.data, ev.enum[j]))
    [] ev.fn = "EnumCase"  -> ~(\E j \in 1..Len(ev.enum) : FoldEq(ev.data, ev.enum[j], ev.cs))
    [] ev.fn = "Required"  -> IsZeroValue(ev.data)
    [] ev.fn = "RequiredString" -> ev.s.b = <<>>
    [] ev.fn = "RequiredNumber" -> ev.x.s = 0
    [] ev.fn = "ReadOnly"  -> ev.ctx = "request" /\ ~IsZeroValue(ev.data)
    [] ev.fn = "FormatOf"  -> ~ev.known \/ ~ev.accepts

(***************************************************************************)
(* Named deviations (KNOWN-FINDINGS.txt)                                    *)
(***************************************************************************)
\* Go conversion exists between the dynamic types of a and b (numeric <-> numeric, integer -> string)
Convertible(a, b) == (IsNum(a) /\ IsNum(b)) \/ (a.k \in NumKinds \ {"float32", "float64"} /\ b.k = "string")
Explain(ev, devs) ==
  LET want == Fails(ev) IN
  IF "EnumLossyConversion" \in devs /\ ev.fn \in {"Enum", "EnumCase"} /\ want /\ ~ev.err
       /\ \E j \in 1..Len(ev.enum) : ev.data.k # ev.enum[j].k /\ Convertible(ev.data, ev.enum[j]) THEN "EnumLossyConversion"
  ELSE IF "EnumNilNil" \in devs /\ ev.fn \in {"Enum", "EnumCase"} /\ ~want /\ ev.err /\ ev.data.k = "nil" THEN "EnumNilNil"
  ELSE IF "EnumNestedCrossType" \in devs /\ ev.fn \in {"Enum", "EnumCase"} /\ ~want /\ ev.err /\ ev.data.k \in {"slice", "map", "ptr"}
       /\ ~(\E j \in 1..Len(ev.enum) : StrictEq(ev.data, ev.enum[j])) THEN "EnumNestedCrossType"
  ELSE IF "UniqueItemsCrossType" \in devs /\ ev.fn = "UniqueItems" /\ want /\ ~ev.err
       /\ ~(\E a, b \in 1..Len(ev.data.e) : a < b /\ StrictEq(ev.data.e[a], ev.data.e[b])) THEN "UniqueItemsCrossType"
  ELSE ""
=============================================================================
