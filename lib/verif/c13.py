"""C13 - numeric verdicts depend on the number, not on the Go type that carries it."""
from . import common, schemafam


def run(tier, seed):
    check = common.Check("C13", tier, seed, "model_checking")
    vh = common.build_vh()
    quick = tier == "quick"
    live = schemafam.live_devs(check, vh, "Trace_Numeric", common.Known().devs("C13"), driver="drive-numeric")

    def on_fail(fails):
        schemafam.classify(check, fails, live)
    schemafam.run_traces(check, vh, "table", ["drive-numeric", "-mode", "table", "-seed", seed, "-n", 350 if quick else 0], "Trace_Numeric", live, on_fail)
    schemafam.run_traces(check, vh, "random", ["drive-numeric", "-mode", "random", "-seed", seed, "-n", 250 if quick else 20000], "Trace_Numeric", live, on_fail)
    check.coverage["rule"] = ("table: pairs (value, bound) from a 49-entry table (0, +-1, halves, small fractions, 8/16/32-bit limits +-1, +-(2^53-1), +-2^53, ...) x 13 carrying kinds (float64, float32, "
                              "int..int64, uint..uint64, json.Number; only where the value is exactly representable) x {maximum, minimum} x {inclusive, exclusive} and multipleOf x 5 entry points (NativeType "
                              "helpers, typed helpers, AgainstSchema with typed data, ParamValidator, HeaderValidator with every type/format the value is in range of). random: seeded decimals (<= 15 digits, "
                              "<= 6 fractional digits) biased to equality and to multiples. TLC evaluates Numeric!Expected (exact BigDec arithmetic). distinct = distinct (value, bound, op, exclusive).")
    check.coverage["open_deviations_honoured"] = sorted(live)
    check.assumptions = ["a decimal is carried by a kind only when exactly representable there (big.Rat check in the harness)", "float carriers hold JSON integers only below 2^53"]
    return check.finish()
