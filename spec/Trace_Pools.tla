----------------------------- MODULE Trace_Pools -----------------------------
(***************************************************************************)
(* Monitor for borrow / redeem event streams recorded at the pool hooks of  *)
(* the real code (pools.go: redeem hooks, production pools; pools_debug.go: *)
(* borrow and redeem hooks), merged in ticket order, with call boundaries.  *)
(* It evaluates, on every event, the invariants of the pool life-cycle      *)
(* (Pools / ValidatorTree):                                                 *)
(*   Exclusive / NoDup : an object handed out by a pool is not owned by     *)
(*        anybody (a Borrow of a live object means the pool held it twice,  *)
(*        or held an object somebody still uses);                           *)
(*   a Redeem concerns an object the redeemer owns; an object is redeemed   *)
(*        once per borrow (double redeem = duplicate pool entry);           *)
(*   EmptyResultNeverPooled;                                                *)
(*   OutcomeIndependence : CallReturn(c, out) => out = Ref[c], the outcome  *)
(*        of the same call alone with nothing pooled.                       *)
(* In the redeem-only stream (production pools: Borrow cannot be hooked     *)
(* add-only) the borrow between two redeems of one object is INFERRED from  *)
(* the poisoner's byte image: touched = FALSE means nobody rebuilt the      *)
(* object since it was last redeemed (scratch schemas are exempt: their     *)
(* borrower may legitimately not write them).                               *)
(* A failing event never disables the monitor.                              *)
(***************************************************************************)
EXTENDS Json, TLC, Sequences, Integers, FiniteSets
CONSTANT FullStream     \* TRUE: borrows are logged (validatedebug build)
Trace == ndJsonDeserialize("events.ndjson")
VARIABLES l, fails,
          live,      \* objects currently borrowed: set of <<pool, id>> (full stream only)
          owner,     \* [live object -> goroutine]
          pooled     \* objects whose last event is a redeem
vars == <<l, fails, live, owner, pooled>>

Init == l = 1 /\ fails = {} /\ live = {} /\ owner = [o \in {} |-> 0] /\ pooled = {}

F(k, clause, ev) == [l |-> k, clause |-> clause, pool |-> IF "p" \in DOMAIN ev THEN ev.p ELSE "", obj |-> IF "o" \in DOMAIN ev THEN ev.o ELSE 0, dev |-> ""]

Next ==
  /\ l <= Len(Trace)
  /\ l' = l + 1
  /\ LET ev == Trace[l]  o == IF "o" \in DOMAIN ev THEN <<ev.p, ev.o>> ELSE <<"", 0>> IN
     CASE ev.ev = "reset" -> live' = {} /\ owner' = [x \in {} |-> 0] /\ pooled' = {} /\ UNCHANGED fails
       [] ev.ev = "B" ->
            /\ fails' = fails \cup (IF o \in live THEN {F(l, "Exclusive: a pool handed out an object that is still owned (duplicate pool entry or redeem of a live object)", ev)} ELSE {})
            /\ live' = live \cup {o}
            /\ owner' = [x \in live \cup {o} |-> IF x = o THEN ev.g ELSE owner[x]]
            /\ pooled' = pooled \ {o}
       [] ev.ev = "R" ->
            /\ fails' = fails
                 \cup (IF ev.empty THEN {F(l, "EmptyResultNeverPooled", ev)} ELSE {})
                 \cup (IF FullStream /\ o \notin live THEN {F(l, "NoDup: redeem of an object that is not borrowed (double redeem)", ev)} ELSE {})
                 \cup (IF FullStream /\ o \in live /\ owner[o] # ev.g THEN {F(l, "redeem by a goroutine that does not own the object", ev)} ELSE {})
                 \cup (IF ~FullStream /\ o \in pooled /\ ~ev.touched /\ ev.p # "schemas"
                       THEN {F(l, "NoDup: object redeemed twice with no construction in between (inferred from the poison image)", ev)} ELSE {})
            /\ live' = live \ {o}
            /\ owner' = [x \in live \ {o} |-> owner[x]]
            /\ pooled' = pooled \cup {o}
       [] ev.ev = "ret" ->
            /\ fails' = fails \cup (IF ev.out # ev.ref THEN {F(l, "OutcomeIndependence: outcome differs from the same call alone with nothing pooled (class " \o ev.class \o ")", ev)} ELSE {})
            /\ UNCHANGED <<live, owner, pooled>>
       [] OTHER -> UNCHANGED <<fails, live, owner, pooled>>
Spec == Init /\ [][Next]_vars

RECURSIVE SetToSeq(_)
SetToSeq(S) == IF S = {} THEN <<>> ELSE LET x == CHOOSE x \in S : TRUE IN <<x>> \o SetToSeq(S \ {x})
Done == l = Len(Trace) + 1 =>
          /\ ndJsonSerialize("fails.ndjson", SetToSeq(fails))
          /\ PrintT(<<"TRACE-DONE", Len(Trace), Cardinality(fails)>>)
=============================================================================
