------------------------------ MODULE Options ------------------------------
(***************************************************************************)
(* The process-wide default options (options.go): SetContinueOnErrors and   *)
(* NewSpecValidator both go through defaultOptsMutex.  One action per       *)
(* memory access, so that TLC sees every interleaving of setters and        *)
(* readers.  A DATA RACE is two accesses of different goroutines to         *)
(* defaultOpts, at least one a write, that are not ordered by the mutex:    *)
(* here, two goroutines "inside" their access at the same time.             *)
(*                                                                          *)
(* ReaderLocks = TRUE is the code after fix 4471307; FALSE is the tree      *)
(* before it (NewSpecValidator copied defaultOpts without the lock) and     *)
(* MUST violate NoRace - the check refuses a model that lost its bite.      *)
(* SetterFastPath = TRUE is the shape of a seeded change (an unlocked       *)
(* "nothing to do" test before taking the lock) and must violate it too.    *)
(* Bound to the code by the race build of the concurrent driver (C05).      *)
(***************************************************************************)
EXTENDS Integers, FiniteSets
CONSTANTS Setters, Readers, ReaderLocks, SetterFastPath
VARIABLES pc,        \* [goroutine -> program counter]
          mu,        \* holder of defaultOptsMutex or "none"
          opt,       \* defaultOpts.ContinueOnErrors
          copy,      \* [reader -> the value it copied]
          want       \* [setter -> the value it sets]
vars == <<pc, mu, opt, copy, want>>
Gor == Setters \cup Readers

Init == /\ pc = [g \in Gor |-> "start"] /\ mu = "none" /\ opt = FALSE
        /\ copy = [r \in Readers |-> FALSE] /\ want \in [Setters -> BOOLEAN]

\* accessing(g): g is in the middle of a read or write of defaultOpts
Reading(g) == pc[g] \in {"peek", "read"}
Writing(g) == pc[g] = "write"

SetterStep(s) ==
  \/ /\ pc[s] = "start" /\ pc' = [pc EXCEPT ![s] = IF SetterFastPath THEN "peek" ELSE "lock"] /\ UNCHANGED <<mu, opt, copy, want>>
  \/ /\ pc[s] = "peek"  \* unlocked read of the current value (seeded shape)
     /\ pc' = [pc EXCEPT ![s] = IF opt = want[s] THEN "done" ELSE "lock"] /\ UNCHANGED <<mu, opt, copy, want>>
  \/ /\ pc[s] = "lock" /\ mu = "none" /\ mu' = s /\ pc' = [pc EXCEPT ![s] = "write"] /\ UNCHANGED <<opt, copy, want>>
  \/ /\ pc[s] = "write" /\ pc' = [pc EXCEPT ![s] = "written"] /\ opt' = want[s] /\ UNCHANGED <<mu, copy, want>>
  \/ /\ pc[s] = "written" /\ mu' = "none" /\ pc' = [pc EXCEPT ![s] = "done"] /\ UNCHANGED <<opt, copy, want>>
ReaderStep(r) ==
  \/ /\ pc[r] = "start" /\ pc' = [pc EXCEPT ![r] = IF ReaderLocks THEN "lock" ELSE "read"] /\ UNCHANGED <<mu, opt, copy, want>>
  \/ /\ pc[r] = "lock" /\ mu = "none" /\ mu' = r /\ pc' = [pc EXCEPT ![r] = "read"] /\ UNCHANGED <<opt, copy, want>>
  \/ /\ pc[r] = "read" /\ copy' = [copy EXCEPT ![r] = opt]
     /\ pc' = [pc EXCEPT ![r] = IF ReaderLocks THEN "unlock" ELSE "done"] /\ UNCHANGED <<mu, opt, want>>
  \/ /\ pc[r] = "unlock" /\ mu' = "none" /\ pc' = [pc EXCEPT ![r] = "done"] /\ UNCHANGED <<opt, copy, want>>
Next == (\E s \in Setters : SetterStep(s)) \/ (\E r \in Readers : ReaderStep(r))
Spec == Init /\ [][Next]_vars

NoRace == \A a, b \in Gor : a # b => ~((Writing(a) /\ (Writing(b) \/ Reading(b))))
MutexOK == mu \in Gor \cup {"none"}
\* a reader copies a value some setter asked for (or the initial one): options are never torn
CopyIsSomeValue == \A r \in Readers : pc[r] = "done" => copy[r] \in ({FALSE} \cup {want[s] : s \in Setters})
=============================================================================
