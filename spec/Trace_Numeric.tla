---------------------------- MODULE Trace_Numeric ----------------------------
(* C13 trace specification: events of kind "num" (one numeric constraint check through one entry point). *)
EXTENDS Json, TLC, Numeric
CONSTANT OpenDevs
Trace == ndJsonDeserialize("events.ndjson")
VARIABLES l, fails
vars == <<l, fails>>

\* JsonSchema!MultRegion, restated for a value / factor pair
MultRegion(x, f) ==
  /\ x.s # 0 /\ f.s = 1
  /\ LET sc == Max(x.f, f.f)
         X  == ScaledD(x, sc)
         F  == ScaledD(f, sc)
         R  == StripZ(RemD(X, F))
         R2 == IF R = <<>> THEN <<>> ELSE StripZ(SubD(F, R))
         m  == IF CmpD(R, R2) <= 0 THEN R ELSE R2
     IN \/ (R # <<>> /\ CmpD(m \o Zeros(8), X) < 0)
        \/ CmpD(X, F \o Zeros(15)) >= 0
        \/ (R = <<>> /\ (x.f > 0 \/ f.f > 0))              \* a true multiple with fractional operands: the float quotient may land just BELOW an integer, which the tolerance does not forgive

Explain(ev) ==
  IF "BoundOutsideDeclaredFormat" \in OpenDevs /\ Expected({}, ev) # Expected({"BoundOutsideDeclaredFormat"}, ev) /\ Expected({"BoundOutsideDeclaredFormat"}, ev) = ev.out THEN "BoundOutsideDeclaredFormat"
  ELSE IF "IntBoundTruncation" \in OpenDevs /\ Expected({"IntBoundTruncation"}, ev) = ev.out THEN "IntBoundTruncation"
  ELSE IF "MultipleOfFloat" \in OpenDevs /\ ev.op = "mult" /\ ev.out \in {"ok", "fail"}
          /\ (ev.kind \in FloatKinds \/ ~NativePath(ev.entry, ev.type, ev.format, ev.b)) /\ MultRegion(ev.x, ev.b) THEN "MultipleOfFloat"
  ELSE ""

Check(ev, k) ==
  LET ideal == Expected({}, ev) IN
  IF ev.out = ideal THEN {}
  ELSE {[l |-> k, n |-> ev.n, clause |-> ev.entry \o "/" \o ev.op \o "/" \o ev.kind, want |-> ideal, got |-> ev.out, dev |-> Explain(ev)]}

Init == l = 1 /\ fails = {}
Next == /\ l <= Len(Trace)
        /\ l' = l + 1
        /\ fails' = fails \cup Check(Trace[l], l)
Spec == Init /\ [][Next]_vars
RECURSIVE SetToSeq(_)
SetToSeq(S) == IF S = {} THEN <<>> ELSE LET x == CHOOSE x \in S : TRUE IN <<x>> \o SetToSeq(S \ {x})
Done == l = Len(Trace) + 1 =>
          /\ ndJsonSerialize("fails.ndjson", SetToSeq(fails))
          /\ PrintT(<<"TRACE-DONE", Len(Trace), Cardinality(fails)>>)
=============================================================================
