---------------------------- MODULE Trace_Errors ----------------------------
(***************************************************************************)
(* C17 trace specification: events of kind "errors".                        *)
(***************************************************************************)
EXTENDS Json, Sequences, Integers, FiniteSets, SchemaErrors
CONSTANT OpenDevs
Trace == ndJsonDeserialize("events.ndjson")
VARIABLES l, fails
vars == <<l, fails>>

F(k, ev, clause, want, got) == [l |-> k, n |-> ev.n, clause |-> clause, want |-> want, got |-> got, dev |-> ""]

Check(ev, k) ==
  LET known   == SeqToSet(ev.known)
      nesting == NestingClass(ev.root)
      off2    == IF nesting THEN OffenderNames(ev.rootp, known, OpenDevs, ev.root, ev.i) ELSE {}
      off1    == IF nesting THEN OffenderNames("", known, OpenDevs, ev.root, ev.i) ELSE {}
      ran     == ev.o1 \in {"valid", "invalid"} /\ ev.o2 \in {"valid", "invalid"}
  IN IF ~ran THEN {F(k, ev, "outcome", "valid|invalid", ev.o1 \o "/" \o ev.o2)} ELSE
     \* an invalid verdict carries at least one error and a valid one none
     (IF (ev.o2 = "invalid") # (Len(ev.msgs2) > 0) THEN {F(k, ev, "verdict-vs-errors(validator)", ev.o2, ToString(Len(ev.msgs2)))} ELSE {})
     \cup (IF (ev.o1 = "invalid") # (Len(ev.msgs1) > 0) THEN {F(k, ev, "verdict-vs-errors(oneshot)", ev.o1, ToString(Len(ev.msgs1)))} ELSE {})
     \cup (IF ev.haserr2 # (ev.o2 = "invalid") \/ ev.aserrnil2 # (ev.o2 = "valid") THEN {F(k, ev, "queries", ev.o2, "HasErrors/AsError disagree")} ELSE {})
     \* the one-shot error is nil or a composite with code 422 listing exactly the messages of the result, no duplicates
     \cup (IF ev.o1 = "invalid" /\ ev.code1 # 422 THEN {F(k, ev, "composite-code", "422", ToString(ev.code1))} ELSE {})
     \cup (IF SeqToSet(ev.msgs1) # SeqToSet(ev.msgs0) THEN {F(k, ev, "composite-messages", "same set as the result", "differs")} ELSE {})
     \cup (IF ~NoDupSeq(ev.msgs1) \/ ~NoDupSeq(ev.msgs2) \/ ~NoDupSeq(ev.msgs0) THEN {F(k, ev, "duplicates", "none", "duplicate message")} ELSE {})
     \cup (IF 0 \in SeqToSet(ev.msgs1) \cup SeqToSet(ev.msgs2) THEN {F(k, ev, "nil-error", "none", "nil in error list")} ELSE {})
     \* names
     \cup {F(k, ev, "name-not-allowed(validator)", "root or an extension of it", ev.names2[j]) : j \in {q \in 1..Len(ev.names2) : ~NameAllowed(ev.names2[q], ev.rootp, ev.root, ev.i)}}
     \cup {F(k, ev, "name-not-allowed(oneshot)", "root or an extension of it", ev.names1[j]) : j \in {q \in 1..Len(ev.names1) : ~NameAllowed(ev.names1[q], "", ev.root, ev.i)}}
     \cup (IF nesting THEN {F(k, ev, "name-not-offender(validator)", "an offending member", ev.names2[j]) : j \in {q \in 1..Len(ev.names2) : ev.names2[q] \notin off2}} ELSE {})
     \cup (IF nesting THEN {F(k, ev, "name-not-offender(oneshot)", "an offending member", ev.names1[j]) : j \in {q \in 1..Len(ev.names1) : ev.names1[q] \notin off1}} ELSE {})

Init == l = 1 /\ fails = {}
Next == /\ l <= Len(Trace)
        /\ l' = l + 1
        /\ fails' = fails \cup Check(Trace[l], l)
Spec == Init /\ [][Next]_vars

RECURSIVE SetToSeq(_)
SetToSeq(S) == IF S = {} THEN <<>> ELSE LET x == CHOOSE x \in S : TRUE IN <<x>> \o SetToSeq(S \ {x})
Done == l = Len(Trace) + 1 =>
          /\ ndJsonSerialize("fails.ndjson", SetToSeq(fails))
          /\ PrintT(<<"TRACE-DONE", Len(Trace), Cardinality(fails)>>)
=============================================================================
