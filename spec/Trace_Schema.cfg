SPECIFICATION Spec
INVARIANT Done
CHECK_DEADLOCK FALSE
CONSTANT OpenDevs = {"NullEarlyExit", "EnumNull", "FormatSkipsType", "MultipleOfFloat"}
