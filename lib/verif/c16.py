"""C16 - parameter, header and items validators follow Swagger simple-schema semantics."""
from . import common, schemafam


def run(tier, seed):
    check = common.Check("C16", tier, seed, "model_checking")
    vh = common.build_vh()
    quick = tier == "quick"
    known = dict(common.Known().devs("C16"))
    live = schemafam.live_devs(check, vh, "Trace_Simple", known, driver="drive-simple")
    # the float multipleOf tolerance is C13's finding; it is honoured here while C13 still lists it
    if "MultipleOfFloat" in common.Known().devs("C13"):
        live["MultipleOfFloat"] = common.Known().devs("C13")["MultipleOfFloat"]

    if "UniqueItemsCrossType" in common.Known().devs("C14"):
        live["UniqueItemsCrossType"] = common.Known().devs("C14")["UniqueItemsCrossType"]

    def on_fail(fails):
        schemafam.classify(check, fails, live)
    schemafam.run_traces(check, vh, "random", ["drive-simple", "-seed", seed, "-n", 2500 if quick else 80000, "-per", 4], "Trace_Simple", live, on_fail)
    check.coverage["rule"] = ("seeded simple-schema definitions (type x format of that type x enum / numeric / string / array constraints, items nested to depth 4 with the constraint placed at a chosen depth) x "
                              "typed Go values of matching and non-matching kinds (every integer and float width, strings, booleans, []interface{} and typed slices, nested slices, nil) through "
                              "NewParamValidator (query/header/path/formData) and NewHeaderValidator, long-lived and recycling. TLC evaluates SimpleSchema!SimpleValid. Numeric bounds are integers here "
                              "(fractional bounds and tolerances belong to C13). non-trivial = distinct (definition, value, entry) with nested items.")
    check.coverage["open_deviations_honoured"] = sorted(live)
    check.assumptions = ["regexp/registry facts from the harness", "[]uint8 values are excluded: go-openapi treats []byte as a base64 string"]
    return check.finish()
