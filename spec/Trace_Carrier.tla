---------------------------- MODULE Trace_Carrier ----------------------------
(***************************************************************************)
(* C09: defaults and examples are judged exactly as their schema judges     *)
(* them.  One event = one carrier: a clean document D0 (e0 errors, warnings *)
(* w0) and D1 = D0 + a default / example at one location (e1, w1), with the *)
(* schema of that location and the value.  The specification decides the    *)
(* judgement (JsonSchema!Valid, or SimpleSchema!SimpleValid for parameters, *)
(* headers and their items) and requires, without looking at message text: *)
(*   accepted value   => no new error, no new warning                       *)
(*   rejected default => at least one error                                 *)
(*   rejected example => no error and at least one new warning              *)
(***************************************************************************)
EXTENDS Json, TLC, JsonSchema
CONSTANT OpenDevs
SS == INSTANCE SimpleSchema
Trace == ndJsonDeserialize("events.ndjson")
VARIABLES l, fails
vars == <<l, fails>>
S(q) == {q[j] : j \in 1..Len(q)}
Judge(ev) == IF ev.simple THEN SS!SimpleValid({}, S(ev.known), "param", 0, ev.def, ev.val)
             ELSE Valid(ev.root, S(ev.known), {}, ev.root, ev.val)
\* the "already visited" heuristic of default_validator.go / example_validator.go (isVisited), transcribed: a path is
\* taken for visited when, for some "." in it, the text after the dot is a suffix of the text before it
HasSuffix(s, suf) == Len(suf) <= Len(s) /\ SubSeq(s, Len(s) - Len(suf) + 1, Len(s)) = suf
HeuristicFires(path) == \E i \in 1..(Len(path) - 1) : SubSeq(path, i, i) = "." /\ HasSuffix(SubSeq(path, 1, i - 1), SubSeq(path, i + 1, Len(path)))
\* deviation VisitedSuffixSkip: some path on the walk to the carrier is (wrongly) considered visited, the carrier is never judged
Skipped(ev) == "VisitedSuffixSkip" \in OpenDevs /\ \E j \in 1..Len(ev.vpaths) : HeuristicFires(ev.vpaths[j])
F(k, ev, clause, want, got, dev) == [l |-> k, n |-> ev.n, clause |-> clause, want |-> want, got |-> got, dev |-> dev]
Check(ev, k) ==
  IF ev.out0 # "returned" \/ ev.out1 # "returned" \/ ev.e0 # 0 THEN
     {F(k, ev, "the generated document pair is not usable (D0 must be clean, both must return)", "clean D0", ev.out0 \o "/" \o ev.out1 \o "/" \o ToString(ev.e0), "harness")}
  ELSE LET ok == Judge(ev) IN
     IF ok THEN
        (IF ev.e1 # 0 \/ S(ev.w1) # S(ev.w0) THEN {F(k, ev, "a " \o ev.what \o " its schema ACCEPTS is reported (" \o ev.loc \o ")", "no new error or warning", ToString(<<ev.e1, S(ev.w1) \ S(ev.w0)>>), "")} ELSE {})
     ELSE IF ev.what = "default" THEN
        (IF ev.e1 = 0 THEN {F(k, ev, "a default its schema REJECTS is not reported as an error (" \o ev.loc \o ")", "at least one error", "0 errors",
                               IF Skipped(ev) THEN "VisitedSuffixSkip" ELSE "")} ELSE {})
     ELSE
        (IF ev.e1 # 0 \/ ~(S(ev.w0) \subseteq S(ev.w1)) \/ S(ev.w1) = S(ev.w0)
           THEN {F(k, ev, "an example its schema REJECTS is not reported as a warning (" \o ev.loc \o ")", "no error, at least one new warning", ToString(<<ev.e1, S(ev.w1) \ S(ev.w0)>>),
                   IF Skipped(ev) THEN "VisitedSuffixSkip" ELSE "")} ELSE {})
Init == l = 1 /\ fails = {}
Next == /\ l <= Len(Trace)
        /\ l' = l + 1
        /\ fails' = fails \cup Check(Trace[l], l)
Spec == Init /\ [][Next]_vars
RECURSIVE SetToSeq(_)
SetToSeq(X) == IF X = {} THEN <<>> ELSE LET x == CHOOSE x \in X : TRUE IN <<x>> \o SetToSeq(X \ {x})
Done == l = Len(Trace) + 1 =>
          /\ ndJsonSerialize("fails.ndjson", SetToSeq(fails))
          /\ PrintT(<<"TRACE-DONE", Len(Trace), Cardinality(fails)>>)
=============================================================================
