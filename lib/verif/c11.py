"""C11 - a panic during one validation does not corrupt later validations."""
from . import common, poolsfam


def run(tier, seed):
    check = common.Check("C11", tier, seed, "model_checking")
    quick = tier == "quick"
    vh = common.build_vh()
    vhd = common.build_vh(tags=("verif", "validatedebug"))
    # 1. every unwind point of every tree shape, then arbitrary further calls: NoDup must survive the recovered panic
    poolsfam.model(check, "1g-3calls-panic", "g1", 3, panic=True)
    poolsfam.model(check, "2g-1call-panic", "g1, g2", 1, panic=True)
    # non-vacuity: with the pre-fix ordering the same model must exhibit the double redeem
    poolsfam.model(check, "prefix-ordering", "g1", 3, panic=True, nilfirst=False, expect_violation=True)
    if not quick:
        poolsfam.model(check, "1g-4calls-7obj-panic", "g1", 4, panic=True, maxobj=7, timeout=7200)
    # 2. histories: (workload, k) for EVERY k reached by the workload's format checks, recovered, then a fixed battery of
    #    every call class and a seeded random tail; each later outcome must equal its alone/fresh reference
    n, ln = (60, 12) if quick else (100000, 60)
    jobs = [(vh, "panic-histories", ["-seed", seed, "-panics", "-n", n, "-len", ln, "-spec=false"], False),
            (vhd, "panic-histories-debugpools", ["-seed", seed, "-panics", "-n", n, "-len", ln, "-spec=false"], True),
            (vh, "panic-histories-unpoisoned", ["-seed", seed + 1, "-panics", "-n", n, "-len", ln, "-spec=false", "-poison=false"], False),
            (vh, "panic-histories-with-spec", ["-seed", seed + 5, "-panics", "-n", 12 if quick else 80, "-len", ln], False),
            # the same kind of histories WITHOUT scribbling: a handler that reads a redeemed validator's own fields (to decide
            # whether to give it back once more) reads them as they really are
            (vh, "panic-histories-with-spec-unpoisoned", ["-seed", seed + 6, "-panics", "-n", 12 if quick else 80, "-len", ln, "-poison=false"], False)]
    common.parallel_jobs(check, lambda j: poolsfam.histories(check, j[0], j[1], j[2], full=j[3]), jobs, jobs=len(jobs))
    if check.coverage.get("panics_injected", 0) == 0:
        raise common.Inconclusive("no panic was injected: the workloads make no format check")
    check.coverage["rule"] = ("a history = a panic injected at the k-th invocation of the caller-supplied format checker of a format-bearing workload (formats spread over properties, allOf / anyOf / "
                              "oneOf / not branches and array items, and recycled parameter / header validators carrying a format; every k reached by the workload, counted in a dry run), recovered by the caller, sometimes followed by a second recovered panic, "
                              "then one call of every class and a seeded random tail. Each later outcome must equal the same call alone with nothing pooled; the pool event stream must satisfy "
                              "the monitor (NoDup / Exclusive). non-trivial = distinct (previous class, class) pairs executed after a panic.")
    check.assumptions = ["panics are injected through a wrapper of strfmt.Default whose Validates panics at the k-th call", "alone/fresh reference as in C04"]
    return check.finish()
