package main

import (
	"bufio"
	"encoding/json"
	"flag"
	"fmt"
	"github.com/go-openapi/loads"
	"math/rand"
	"os"
	"path/filepath"
	"regexp"
	"runtime"
	"sort"
	"sync"
	"time"

	"github.com/go-openapi/spec"
	"github.com/go-openapi/strfmt"
	"github.com/go-openapi/validate"

	"verifharness/internal/enc"
	"verifharness/internal/hook"
)

func init() {
	commands["replay-rexp"] = replayRexp
	commands["drive-rexp"] = driveRexp
}

// substitutions of the model's abstract patterns p, q, bad by real ones, near-colliding on purpose
var rexpSubst = []map[string]string{
	{"p": "^a", "q": "^A", "bad": "("},
	{"p": "a", "q": "a ", "bad": "[a-"},
	{"p": "ab", "q": "a", "bad": "a{2,1}"},
	{"p": "x{2}", "q": "x{2,}", "bad": "\\p{Foo}"},
	{"p": "(?i)^a", "q": "^a", "bad": "(?P<n>"},
	{"p": "^ab$", "q": "^ab", "bad": "*a"},
	// invalid patterns whose syntax error names a fragment that is itself a valid pattern (p), and a near variant (q)
	{"p": "\\d", "q": "^\\d", "bad": "[0-9a-\\d]+"},
	{"p": "[:foo:]", "q": "[[:alpha:]]", "bad": "[[:foo:]]"},
	{"p": "z-a", "q": "", "bad": "^[z-a]$"},
	{"p": "", "q": "b", "bad": "ab\\"},
}

var rexpProbes = []string{"", "a", "A", "ab", "a ", "ba", "xx", "xxx", "bx", "abc", "Ab", " a", "5", ":", "z-a", "o", "AB", "B", "a\nb", "{\nab\n}", "{a b}", "x{y}\nz", "xab", "cab$", "pet_id", "title:dc", "dc", "b:a"}

// fact: what Go's regexp package says, compiled directly from the pattern text (never through validate's cache)
func rexpFact(pattern, s string) string {
	re, err := regexp.Compile(pattern)
	if err != nil {
		return "invalid"
	}
	if re.MatchString(s) {
		return "match"
	}
	return "nomatch"
}

// viaPattern asks validate.Pattern; the answer is classified from the returned error only by nil-ness and by
// asking twice with a string known not to... no: an invalid pattern is distinguished by the helper's contract:
// it must report an error for EVERY string, so "invalid" is observed as "error on a string the pattern would match".
func viaPattern(pattern, s string) string {
	if validate.Pattern("p", "body", s, pattern) == nil {
		return "match"
	}
	return "error"
}

func outcomeAgrees(out, fact string) bool {
	switch fact {
	case "match":
		return out == "match"
	default: // nomatch or invalid: the helper reports an error
		return out == "error"
	}
}

// replayRexp replays TLC-generated schedules of RegexpCache.tla on real goroutines parked at the gate hooks.
func replayRexp(args []string) error {
	fs := flag.NewFlagSet("replay-rexp", flag.ExitOnError)
	in := fs.String("in", "", "directory with sched_*.ndjson")
	out := fs.String("out", "", "report file")
	fs.Parse(args)
	files, _ := filepath.Glob(filepath.Join(*in, "sched_*.ndjson"))
	sort.Strings(files)
	var divergences, unreplayable []interface{}
	steps, calls, probes := 0, 0, 0
	distinct := map[string]struct{}{}
	var sample interface{}
	for fi, f := range files {
		var sched []map[string]interface{}
		fh, err := os.Open(f)
		if err != nil {
			return err
		}
		sc := bufio.NewScanner(fh)
		sc.Buffer(make([]byte, 1<<20), 1<<24)
		for sc.Scan() {
			var st map[string]interface{}
			if err := json.Unmarshal(sc.Bytes(), &st); err != nil {
				return err
			}
			sched = append(sched, st)
		}
		fh.Close()
		key, _ := json.Marshal(sched)
		distinct[digest(string(key))] = struct{}{}
		if sample == nil && len(sched) > 12 {
			var acts []string
			for _, st := range sched[:12] {
				acts = append(acts, fmt.Sprintf("%v:%v(%v)", st["g"], st["act"], st["pat"]))
			}
			sample = acts
		}
		for si, subst := range rexpSubst {
			if (fi+si)%2 == 1 && len(files) > 20 {
				continue // every schedule with half of the substitutions
			}
			validate.VerifResetRegexpCache()
			gs := hook.NewGateSched()
			validate.VerifOnGate = gs.Gate
			workers := map[string]*hook.Worker{}
			pending := map[string]string{} // goroutine -> concrete pattern of its current request
			probeStr := map[string]string{}
			broken := ""
			diverge := func(step int, what string, extra map[string]interface{}) {
				d := map[string]interface{}{"file": filepath.Base(f), "subst": subst, "step": step, "what": what, "schedule": sched[:step]}
				for k, v := range extra {
					d[k] = v
				}
				divergences = append(divergences, d)
			}
			// checkReturn compares a finished call with the fact for the pattern it asked for
			checkReturn := func(step int, g string, ev hook.GateEvent) {
				calls++
				res, _ := ev.Result.(string)
				fact := rexpFact(pending[g], probeStr[g])
				if !outcomeAgrees(res, fact) {
					diverge(step, "a call returned an answer that is not the answer of the requested expression",
						map[string]interface{}{"pattern": pending[g], "string": probeStr[g], "got": res, "fact": fact})
				}
				delete(workers, g)
			}
			for k, st := range sched {
				if broken != "" {
					break
				}
				steps++
				g, _ := st["g"].(string)
				act, _ := st["act"].(string)
				pat, _ := st["pat"].(string)
				modelOut, _ := st["out"].(string)
				switch act {
				case "Call":
					pending[g] = subst[pat]
					// the probe string distinguishes the requested pattern from the others when possible
					probeStr[g] = rexpProbes[(k+si)%len(rexpProbes)]
				case "Lookup":
					p, s := pending[g], probeStr[g]
					w := gs.Start(func() interface{} { return viaPattern(p, s) })
					workers[g] = w
					ev, ok := w.Wait(5 * time.Second)
					switch {
					case !ok:
						broken = "timeout after Lookup"
					case ev.Returned:
						if modelOut == "none" {
							broken = "code hit the cache where the model misses" // e.g. a different caching policy: not a violation by itself
						}
						checkReturn(k+1, g, ev)
					case ev.Parked != "rexp.miss":
						broken = "unexpected gate " + ev.Parked
					default:
						if modelOut != "none" {
							broken = "code missed the cache where the model hits"
						}
					}
				default:
					w := workers[g]
					if w == nil {
						if act != "Unlock" { // Unlock after a Reload that found the entry: the real call has already returned
							broken = "no parked goroutine for " + act
						}
						break
					}
					w.Release()
					ev, ok := w.Wait(5 * time.Second)
					if !ok {
						broken = "timeout after " + act
						break
					}
					want := map[string]string{"Compile": "rexp.lock", "Lock": "rexp.locked", "Reload": "rexp.beforeStore", "Store": "rexp.stored"}[act]
					switch {
					case ev.Returned:
						checkReturn(k+1, g, ev)
						// legal early returns: Compile of an invalid pattern, Reload that finds the entry, Unlock
						if !(act == "Unlock" || (act == "Compile" && modelOut == "error") || act == "Reload") {
							broken = "call returned after " + act
						}
					case act == "Reload" && ev.Parked == "rexp.beforeStore":
					case ev.Parked != want:
						broken = "parked at " + ev.Parked + " after " + act
					}
				}
				// invariant KeyIsSource on the REAL cache after every step
				for key, src := range validate.VerifRegexpCacheSnapshot() {
					if key != src {
						diverge(k+1, "KeyIsSource violated on the real cache", map[string]interface{}{"key": key, "source": src})
					}
				}
			}
			// drain: let every remaining goroutine finish
			for g, w := range workers {
				gs.Free(w)
				for {
					ev, ok := w.Wait(5 * time.Second)
					if !ok {
						break
					}
					if ev.Returned {
						checkReturn(len(sched), g, ev)
						break
					}
				}
			}
			validate.VerifOnGate = nil
			if broken != "" {
				unreplayable = append(unreplayable, map[string]interface{}{"file": filepath.Base(f), "subst": si, "why": broken})
			}
			// after the schedule: every pattern, through the public helper, on every probe string
			for _, name := range []string{"p", "q", "bad"} {
				for _, s := range rexpProbes {
					probes++
					got, fact := viaPattern(subst[name], s), rexpFact(subst[name], s)
					if !outcomeAgrees(got, fact) {
						diverge(len(sched), "after the schedule, Pattern does not behave like the requested expression",
							map[string]interface{}{"pattern": subst[name], "string": s, "got": got, "fact": fact})
					}
				}
			}
		}
	}
	return writeJSONFile(*out, map[string]interface{}{"schedules": len(files), "distinct_schedules": len(distinct), "steps": steps, "calls": calls, "probes": probes,
		"divergences": divergences, "unreplayable": unreplayable, "sample": sample})
}

// driveRexp records sequential and concurrent uses of valid and invalid patterns through Pattern, the pattern
// keyword and patternProperties (code -> spec); each event carries the fact computed with an independently
// compiled regexp.
func driveRexp(args []string) error {
	fs := flag.NewFlagSet("drive-rexp", flag.ExitOnError)
	seed := fs.Int64("seed", 1, "seed")
	n := fs.Int("n", 200, "calls per goroutine")
	rounds := fs.Int("rounds", 10, "rounds (cache reset between rounds)")
	out := fs.String("out", "", "output directory")
	fs.Parse(args)
	pats := []string{"^a", "^A", "a", "a ", "ab", "x{2}", "x{2,}", "(?i)^a", "^ab$", "^ab", "b$", "é", "^.$", "(", "[a-", "a{2,1}", "\\p{Foo}", "*a", "(?P<n>",
		// invalid patterns next to the valid pattern their syntax error quotes
		"[0-9a-\\d]+", "\\d", "[[:foo:]]", "[:foo:]", "^[z-a]$", "z-a", "ab\\", "",
		// inline flags: they belong to their own pattern only, whatever other patterns stand next to it in a keyword
		"(?i)^x", "(?i)zz$", "(?s)^q.q$", "(?U)^z+",
		// the texts of the expressions the library compiles for its own use (they share the cache with the caller's patterns)
		"{[^{}]+?}", ".*[{}\\s]+.*", "{.*[{}\\s]+.*}",
		// unanchored expressions that begin with literal text
		"_id$", "ab$", "b\\$",
		// expressions and names containing the separators a memo key might be built with
		"dc", "dc:title", "^a:b", "a:b:a$"}
	type rec struct {
		ticket      int
		g, pid      int
		via, s, out string
		extra       []int // further patterns of the same patternProperties keyword
	}
	w := newChunkWriter(*out, 0)
	defer w.close()
	r := rand.New(rand.NewSource(*seed))
	total := 0
	distinct := map[string]struct{}{}
	var samples []interface{}
	for round := 0; round < *rounds; round++ {
		validate.VerifResetRegexpCache()
		if round%2 == 0 {
			// a specification validation first: the library's own expressions enter the cache before the caller's patterns
			if d, err := loads.Analyzed(json.RawMessage(`{"swagger":"2.0","info":{"title":"r","version":"1"},"paths":{"/a/{id}/b c":{"get":{"operationId":"r","parameters":[{"name":"id","in":"path","required":true,"type":"string"}],"responses":{"200":{"description":"ok"}}}}}}`), ""); err == nil {
				_, _ = validate.NewSpecValidator(d.Schema(), strfmt.Default).Validate(d)
			}
		}
		ng := []int{1, 2, 4, 8, 16, 32, 64}[round%7]
		var mu sync.Mutex
		var recs []rec
		ticket := 0
		var wg sync.WaitGroup
		for g := 0; g < ng; g++ {
			wg.Add(1)
			gr := rand.New(rand.NewSource(r.Int63()))
			go func(g int) {
				defer wg.Done()
				for k := 0; k < *n; k++ {
					pid := gr.Intn(len(pats))
					s := rexpProbes[gr.Intn(len(rexpProbes))]
					via := []string{"Pattern", "pattern", "patternProperties", "patternPropertiesClosed", "patternPropertiesElseRejected"}[gr.Intn(5)]
					res := ""
					var extra []int
					switch via {
					case "Pattern":
						res = viaPattern(pats[pid], s)
					case "pattern":
						sch := spec.StringProperty()
						sch.Pattern = pats[pid]
						if validate.AgainstSchema(sch, s, strfmt.Default) == nil {
							res = "match"
						} else {
							res = "error"
						}
					case "patternPropertiesElseRejected":
						// additionalProperties given as a SCHEMA (one that rejects everything): a member is accepted exactly when
						// its name matches one of the (valid) patterns, whose own schemas accept everything
						sch := &spec.Schema{}
						sch.PatternProperties = map[string]spec.Schema{pats[pid]: {}}
						for j := gr.Intn(3); j > 0; j-- {
							e := gr.Intn(len(pats))
							if _, dup := sch.PatternProperties[pats[e]]; !dup {
								sch.PatternProperties[pats[e]] = spec.Schema{}
								extra = append(extra, e)
							}
						}
						sch.AdditionalProperties = &spec.SchemaOrBool{Allows: true, Schema: &spec.Schema{SchemaProps: spec.SchemaProps{Not: &spec.Schema{}}}}
						if validate.AgainstSchema(sch, map[string]interface{}{s: 1}, strfmt.Default) == nil {
							res = "match"
						} else {
							res = "error"
						}
					case "patternPropertiesClosed":
						// additionalProperties: false - a member is allowed exactly when its name matches one of the (valid) patterns
						sch := &spec.Schema{}
						sch.PatternProperties = map[string]spec.Schema{pats[pid]: {}}
						for j := 1 + gr.Intn(2); j > 0; j-- {
							e := gr.Intn(len(pats))
							if _, dup := sch.PatternProperties[pats[e]]; !dup {
								sch.PatternProperties[pats[e]] = spec.Schema{}
								extra = append(extra, e)
							}
						}
						sch.AdditionalProperties = &spec.SchemaOrBool{Allows: false}
						if validate.AgainstSchema(sch, map[string]interface{}{s: 1}, strfmt.Default) == nil {
							res = "match"
						} else {
							res = "error"
						}
					default:
						// a key matching the pattern must be validated by the pattern's schema (which rejects everything)
						sch := &spec.Schema{}
						sch.PatternProperties = map[string]spec.Schema{pats[pid]: {SchemaProps: spec.SchemaProps{Not: &spec.Schema{}}}}
						// several patterns in one keyword, valid and invalid mixed: each one must be applied
						for j := gr.Intn(3); j > 0; j-- {
							e := gr.Intn(len(pats))
							if _, dup := sch.PatternProperties[pats[e]]; !dup {
								sch.PatternProperties[pats[e]] = spec.Schema{SchemaProps: spec.SchemaProps{Not: &spec.Schema{}}}
								extra = append(extra, e)
							}
						}
						if validate.AgainstSchema(sch, map[string]interface{}{s: 1}, strfmt.Default) == nil {
							res = "error" // not matched (or invalid pattern, which is skipped)
						} else {
							res = "match"
						}
					}
					mu.Lock()
					ticket++
					recs = append(recs, rec{ticket, g, pid, via, s, res, extra})
					mu.Unlock()
				}
			}(g)
		}
		wg.Wait()
		w.open()
		w.write(enc.M{"ev": "reset"}, enc.M{})
		for _, x := range recs {
			fact := rexpFact(pats[x.pid], x.s)
			facts := []interface{}{fact}
			allPats := []interface{}{pats[x.pid]}
			for _, e := range x.extra {
				facts = append(facts, rexpFact(pats[e], x.s))
				allPats = append(allPats, pats[e])
			}
			distinct[fmt.Sprintf("%d/%s/%s", x.pid, x.s, x.via)] = struct{}{}
			ctx := &enc.Ctx{}
			ev := enc.M{"ev": "pattern", "g": x.g, "q": x.ticket, "pid": x.pid + 1, "via": x.via, "str": ctx.Str(x.s)["x"], "out": x.out, "fact": fact, "facts": facts, "ng": ng}
			if err := w.write(ev, enc.M{"pattern": pats[x.pid], "patterns": allPats, "string": x.s, "via": x.via, "goroutines": ng}); err != nil {
				return err
			}
			total++
			if len(samples) < 4 && total%997 == 0 {
				samples = append(samples, enc.M{"pattern": pats[x.pid], "string": x.s, "via": x.via, "goroutines": ng, "out": x.out, "fact": fact})
			}
		}
	}
	// hammer: many goroutines alternate between a few valid patterns through Pattern in a tight loop (any shortcut that
	// remembers "the last pattern" or pairs a text with an expression non-atomically shows here); every answer is compared
	// with the requested expression on the spot, and the disagreements (with a sample of agreements) become trace events
	{
		hp := []string{"^a", "b$", "^ab$", "x{2,}", "(?i)^a"}
		hs := []string{"a", "ab", "b", "xx", "A", "ba"}
		type obs struct {
			pid, sid, g int
			out         string
		}
		var mu sync.Mutex
		var bad, good []obs
		var wg sync.WaitGroup
		deadline := time.Now().Add(1500 * time.Millisecond)
		hg := 2 * runtime.GOMAXPROCS(0)
		for g := 0; g < hg; g++ {
			wg.Add(1)
			go func(g int) {
				defer wg.Done()
				gr := rand.New(rand.NewSource(*seed*1000 + int64(g)))
				var lb, lg []obs
				for it := 0; time.Now().Before(deadline); it++ {
					pid, sid := gr.Intn(len(hp)), gr.Intn(len(hs))
					res := viaPattern(hp[pid], hs[sid])
					if !outcomeAgrees(res, rexpFact(hp[pid], hs[sid])) {
						if len(lb) < 5 {
							lb = append(lb, obs{pid, sid, g, res})
						}
					} else if it%5000 == 0 && len(lg) < 3 {
						lg = append(lg, obs{pid, sid, g, res})
					}
				}
				mu.Lock()
				bad, good = append(bad, lb...), append(good, lg...)
				mu.Unlock()
			}(g)
		}
		wg.Wait()
		w.open()
		w.write(enc.M{"ev": "reset"}, enc.M{})
		all := append(bad, good...)
		for i, x := range all {
			fact := rexpFact(hp[x.pid], hs[x.sid])
			ctx := &enc.Ctx{}
			ev := enc.M{"ev": "pattern", "g": x.g, "q": i + 1, "pid": 100 + x.pid, "via": "Pattern", "str": ctx.Str(hs[x.sid])["x"], "out": x.out, "fact": fact, "facts": []interface{}{fact}, "ng": hg}
			if err := w.write(ev, enc.M{"pattern": hp[x.pid], "patterns": []interface{}{hp[x.pid]}, "string": hs[x.sid], "via": "Pattern (hammer)", "goroutines": hg}); err != nil {
				return err
			}
		}
	}
	w.close()
	return writeJSONFile(filepath.Join(*out, "meta.json"), map[string]interface{}{"events": w.n, "distinct_nontrivial": len(distinct), "samples": samples})
}
