package main

import (
	"encoding/json"
	"flag"
	"fmt"
	"math/rand"
	"os"
	"path/filepath"
	"strings"

	"github.com/go-openapi/spec"
	"github.com/go-openapi/strfmt"
	"github.com/go-openapi/validate"

	"verifharness/internal/enc"
	"verifharness/internal/gen"
)

func init() { commands["drive-longlived"] = driveLongLived }

// trapReg panics when asked about the magic string: a caller-supplied format checker that fails (recovered by the caller).
type trapReg struct{ strfmt.Registry }

const trapString = "\x01boom"

func (t trapReg) Validates(name, data string) bool {
	if data == trapString {
		panic("format checker boom")
	}
	return t.Registry.Validates(name, data)
}

type handle struct {
	kind   string // schema | param | header
	def    []byte
	values []interface{}
	build  func() func(v interface{}) string
}

func mkHandle(kind string, def []byte, values []interface{}) *handle {
	h := &handle{kind: kind, def: def, values: values}
	reg := trapReg{strfmt.Default}
	h.build = func() func(v interface{}) string {
		switch kind {
		case "schema":
			var s spec.Schema
			_ = json.Unmarshal(def, &s)
			sv := validate.NewSchemaValidator(&s, nil, "", reg)
			return func(v interface{}) string {
				res := sv.Validate(v)
				return outcomeOf(res.Errors, res.Warnings)
			}
		case "param":
			var p spec.Parameter
			_ = json.Unmarshal(def, &p)
			pv := validate.NewParamValidator(&p, reg)
			return func(v interface{}) string {
				res := pv.Validate(v)
				if res == nil {
					return "nil"
				}
				return outcomeOf(res.Errors, res.Warnings)
			}
		default:
			var hd spec.Header
			_ = json.Unmarshal(def, &hd)
			hv := validate.NewHeaderValidator("X-H", &hd, reg)
			return func(v interface{}) string {
				res := hv.Validate(v)
				if res == nil {
					return "nil"
				}
				return outcomeOf(res.Errors, res.Warnings)
			}
		}
	}
	return h
}

// deepCopy gives every call its own instance (validators must not keep state, instances must not be shared)
func deepCopy(v interface{}) interface{} {
	if n, ok := v.(json.Number); ok {
		return n
	}
	b, _ := json.Marshal(v)
	var out interface{}
	_ = json.Unmarshal(b, &out)
	return out
}

// plantTrap replaces one string of a value by the magic string that makes the format checker panic.
func plantTrap(v interface{}) (interface{}, bool) {
	switch x := v.(type) {
	case string:
		return trapString, true
	case []interface{}:
		for i := range x {
			if nv, ok := plantTrap(x[i]); ok {
				x[i] = nv
				return x, true
			}
		}
	case map[string]interface{}:
		for _, k := range sortedKeysOf(x) {
			if nv, ok := plantTrap(x[k]); ok {
				x[k] = nv
				return x, true
			}
		}
	}
	return v, false
}

func sortedKeysOf(m map[string]interface{}) []string {
	ks := make([]string, 0, len(m))
	for k := range m {
		ks = append(ks, k)
	}
	for i := range ks {
		for j := i + 1; j < len(ks); j++ {
			if ks[j] < ks[i] {
				ks[i], ks[j] = ks[j], ks[i]
			}
		}
	}
	return ks
}

func driveLongLived(args []string) error {
	fs := flag.NewFlagSet("drive-longlived", flag.ExitOnError)
	seed := fs.Int64("seed", 1, "seed")
	nh := fs.Int("handles", 60, "number of handles (definitions)")
	seqFile := fs.String("seqs", "", "TLC-generated value-index sequences (one JSON array per line)")
	long := fs.Int("long", 50, "length of the additional seeded long sequence per handle")
	out := fs.String("out", "", "output directory")
	fs.Parse(args)
	r := rand.New(rand.NewSource(*seed))
	var seqs [][]int
	if *seqFile != "" {
		b, err := os.ReadFile(*seqFile)
		if err != nil {
			return err
		}
		for _, line := range strings.Split(string(b), "\n") {
			if strings.TrimSpace(line) == "" {
				continue
			}
			var q []int
			if err := json.Unmarshal([]byte(line), &q); err != nil {
				return err
			}
			seqs = append(seqs, q)
		}
	}
	const nval = 6
	var handles []*handle
	// composition + format: a recovered panic of the format checker inside an anyOf / allOf / oneOf / not child,
	// then further use of the same validator
	for _, st := range []string{
		`{"anyOf":[{"type":"string","format":"date"},{"type":"integer"}]}`,
		`{"allOf":[{"type":"string","format":"date"},{"minLength":2}]}`,
		`{"not":{"type":"string","format":"uuid"}}`,
		`{"oneOf":[{"type":"string","format":"email"},{"type":"string","maxLength":2}]}`,
		`{"type":"object","properties":{"a":{"anyOf":[{"type":"string","format":"date"},{"type":"null"}]},"b":{"not":{"type":"string","format":"date"}}}}`,
	} {
		vals := []interface{}{nil, "2020-01-01", "nope", 5.0, trapString, "ab"}
		if strings.Contains(st, `"properties"`) {
			vals = []interface{}{nil, map[string]interface{}{"a": "2020-01-01", "b": "x"}, map[string]interface{}{"a": "nope", "b": "2020-01-01"},
				map[string]interface{}{"a": trapString}, map[string]interface{}{"b": trapString, "a": nil}, map[string]interface{}{"a": 5.0}}
		}
		handles = append(handles, mkHandle("schema", []byte(st), vals))
	}
	// several format-bearing properties next to a nested object: the reused validator must keep asserting every format
	{
		st := `{"type":"object","properties":{"d":{"type":"string","format":"date"},"e":{"type":"string","format":"email"},"n":{"type":"object","properties":{"x":{"type":"string","format":"uuid"},"y":{"type":"integer","maximum":5}}},"k":{"type":"integer"}}}`
		vals := []interface{}{
			map[string]interface{}{"d": "2020-01-01", "e": "a@b.co", "n": map[string]interface{}{"x": "a8098c1a-f86e-11da-bd1a-00112444be1e", "y": 3.0}, "k": 1.0},
			map[string]interface{}{"d": "yesterday", "e": "a@b.co", "n": map[string]interface{}{"x": "a8098c1a-f86e-11da-bd1a-00112444be1e"}},
			map[string]interface{}{"d": "2020-01-01", "e": "not-an-email", "n": map[string]interface{}{"y": 9.0}},
			map[string]interface{}{"n": map[string]interface{}{"x": "not-a-uuid", "y": 1.0}, "k": 2.0, "d": "2020-01-01"},
			map[string]interface{}{"e": "a@b.co", "k": "x"},
			map[string]interface{}{"d": "nope", "e": "nope", "n": map[string]interface{}{"x": "nope"}},
		}
		handles = append(handles, mkHandle("schema", []byte(st), vals), mkHandle("schema", []byte(st), vals))
	}
	// numbers carried as json.Number, mixed with plain strings (the validator converts them according to the declared type)
	for _, st := range []string{`{"type":"number","maximum":10}`, `{"type":"integer","minimum":2,"multipleOf":2}`, `{"type":["number","string"],"maximum":10,"maxLength":2}`,
		`{"anyOf":[{"type":"number","maximum":10},{"type":"string","maxLength":2}]}`} {
		vals := []interface{}{json.Number("5"), json.Number("50"), "abc", json.Number("4"), "ab", json.Number("2.5")}
		handles = append(handles, mkHandle("schema", []byte(st), vals))
	}
	// enumerations of strings at the validator's own level (root, composition member, parameter, header): whatever was checked first
	for _, st := range []string{`{"type":"string","enum":["a","ab","abc","xa"]}`, `{"allOf":[{"enum":["a","ab","abc"]},{"type":"string"}]}`, `{"anyOf":[{"enum":["xa","a","é"]},{"type":"integer"}]}`} {
		vals := []interface{}{"a", "ab", "abc", "xa", "zz", nil}
		handles = append(handles, mkHandle("schema", []byte(st), vals))
	}
	for _, dt := range []string{`{"name":"p","in":"query","type":"string","enum":["a","ab","abc"]}`, `{"type":"string","enum":["xa","a","ab"]}`} {
		kind := "param"
		if !strings.Contains(dt, `"name"`) {
			kind = "header"
		}
		handles = append(handles, mkHandle(kind, []byte(dt), []interface{}{"a", "ab", "abc", "xa", "zz", "é"}))
	}
	// numeric constraints that are not representable in the declared type / format: reported on every call, not just the first
	for _, dt := range []string{`{"name":"limit","in":"query","type":"integer","format":"int32","maximum":3000000000}`, `{"name":"f","in":"query","type":"number","format":"float","minimum":-1e300}`,
		`{"type":"integer","format":"int32","minimum":-3000000000,"multipleOf":2}`, `{"name":"u","in":"query","type":"integer","format":"uint32","maximum":5000000000}`} {
		kind := "param"
		if !strings.Contains(dt, `"name"`) {
			kind = "header"
		}
		handles = append(handles, mkHandle(kind, []byte(dt), []interface{}{int32(5), float64(2), int64(8), float32(1.5), uint32(7), "x"}))
	}
	// anyOf whose alternatives fail with equal match counts: which one explains the failure does not depend on earlier values
	for _, st := range []string{`{"anyOf":[{"type":"string"},{"type":"integer"},{"type":"array"}]}`, `{"allOf":[{"anyOf":[{"type":"string","maxLength":1},{"type":"integer","maximum":3},{"type":"boolean"}]}]}`} {
		handles = append(handles, mkHandle("schema", []byte(st), []interface{}{5.0, true, "s", []interface{}{1.0}, map[string]interface{}{"a": 1.0}, 1.5}))
	}
	// a member matching several patterns and failing several of them: every failure is reported, whatever the visiting order
	for _, st := range []string{`{"patternProperties":{"^a":{"type":"integer"},"a$":{"maxLength":0},"a":{"enum":[1]}}}`, `{"properties":{"k":{"type":"integer"}},"patternProperties":{"^x":{"minimum":10},"a$":{"multipleOf":7},"xa":{"type":"string"}}}`} {
		vals := []interface{}{map[string]interface{}{"a": "xx"}, map[string]interface{}{"xa": 3.0, "k": "s"}, map[string]interface{}{"a": 1.0}, map[string]interface{}{"xa": 14.0}, map[string]interface{}{"aa": "y", "xa": 1.0}, map[string]interface{}{}}
		handles = append(handles, mkHandle("schema", []byte(st), vals), mkHandle("schema", []byte(st), vals))
	}
	// keywords whose members are visited in map order: every repetition must give the same answer
	for _, st := range []string{
		`{"dependencies":{"marker":[],"a":["c"],"other":[]}}`,
		`{"dependencies":{"m1":[],"m2":[],"b":{"required":["c"]}}}`,
		`{"patternProperties":{"^a":{"type":"integer"},"b$":{"type":"integer"},"^x":{}},"additionalProperties":{"type":"string"}}`,
		`{"properties":{"p":{"type":"integer"},"q":{"type":"integer"},"r":{"type":"integer"}},"required":["p","q","r"],"maxProperties":1}`,
	} {
		vals := []interface{}{map[string]interface{}{"marker": 1.0, "a": 1.0, "other": 2.0}, map[string]interface{}{"m1": 1.0, "m2": 1.0, "b": 1.0},
			map[string]interface{}{"a": 1.0, "ab": 2.0, "xa": "s", "zz": "s"}, map[string]interface{}{"p": "x", "q": "y", "r": "z", "marker": 0.0, "a": 0.0},
			map[string]interface{}{"marker": 1.0, "a": 1.0, "c": 1.0, "m1": 0.0, "b": 0.0}, map[string]interface{}{}}
		handles = append(handles, mkHandle("schema", []byte(st), vals), mkHandle("schema", []byte(st), vals))
	}
	for i := 0; i < *nh; i++ {
		var h *handle
		switch i % 3 {
		case 0:
			var s gen.M
			if i%2 == 0 {
				s = gen.RSchema(r, 3, &gen.SchemaOpts{Format: true})
			} else {
				s = gen.NestingSchema(r, 3)
			}
			st, _ := json.Marshal(s)
			vals := []interface{}{nil}
			for len(vals) < nval {
				b, _ := json.Marshal(gen.InstFor(r, s, nil, 4, 0.2))
				v, _ := decodeFloat(b)
				vals = append(vals, v)
			}
			if strings.Contains(string(st), `"format"`) {
				if tv, ok := plantTrap(deepCopy(vals[nval-1])); ok {
					vals[nval-1] = tv
				}
			}
			h = mkHandle("schema", st, vals)
		default:
			def := gen.SimpleDef(r, 3)
			if i%3 == 1 {
				def["name"], def["in"] = "p", []string{"query", "header", "path", "formData"}[r.Intn(4)]
			}
			if i%2 == 0 { // arrays of arrays: per-element validators
				def = gen.M{"type": "array", "items": gen.M{"type": "array", "items": def}}
				if i%3 == 1 {
					def["name"], def["in"] = "matrix", "query"
				}
			}
			dt, _ := json.Marshal(def)
			vals := []interface{}{nil}
			for len(vals) < nval {
				vals = append(vals, gen.SimpleValue(r, def, 0.12))
			}
			if i%2 == 0 {
				vals[1] = []interface{}{[]interface{}{}, vals[2]} // an empty first row before a non-empty one
			}
			h = mkHandle([]string{"schema", "param", "header"}[i%3], dt, vals)
		}
		handles = append(handles, h)
	}
	w := newChunkWriter(*out, 0)
	defer w.close()
	calls := 0
	distinct := map[string]struct{}{}
	var samples []interface{}
	for hi, h := range handles {
		// fresh outcomes: a newly built validator per value
		fresh := make([]string, len(h.values))
		for j, v := range h.values {
			v := deepCopy(v)
			fresh[j] = protect(func() string { return h.build()(v) })
		}
		run := func(seq []int, tag string) error {
			if w.ev == nil || w.n > 0 && w.n%20000 < len(seq)+1 {
				w.open()
			}
			use := h.build() // ONE long-lived validator for the whole sequence
			if err := w.write(enc.M{"ev": "build", "h": hi, "kind": h.kind}, enc.M{"handle": hi, "kind": h.kind, "def": json.RawMessage(h.def)}); err != nil {
				return err
			}
			var done []int
			for _, x := range seq {
				v := deepCopy(h.values[x-1])
				got := protect(func() string { return use(v) })
				calls++
				done = append(done, x)
				distinct[fmt.Sprintf("%d/%d/%s", hi, x, tag)] = struct{}{}
				vt, _ := json.Marshal(h.values[x-1])
				if err := w.write(enc.M{"ev": "use", "h": hi, "x": x, "out": digest(got), "fresh": digest(fresh[x-1])},
					enc.M{"handle": hi, "kind": h.kind, "def": json.RawMessage(h.def), "sequence": append([]int{}, done...), "value": json.RawMessage(vt), "got": got, "fresh": fresh[x-1]}); err != nil {
					return err
				}
			}
			return nil
		}
		for _, q := range seqs {
			if err := run(q, "enum"); err != nil {
				return err
			}
		}
		longSeq := make([]int, *long)
		for i := range longSeq {
			longSeq[i] = 1 + r.Intn(nval)
		}
		if err := run(longSeq, "long"); err != nil {
			return err
		}
		if len(samples) < 3 {
			samples = append(samples, enc.M{"kind": h.kind, "def": json.RawMessage(h.def), "values": h.values, "sequence": longSeq[:8]})
		}
	}
	w.close()
	return writeJSONFile(filepath.Join(*out, "meta.json"), map[string]interface{}{"events": w.n, "calls": calls, "handles": len(handles), "distinct_nontrivial": len(distinct), "samples": samples})
}
