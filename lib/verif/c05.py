"""C05 - concurrent validations are race-free and independent of each other."""
import json, os, re
from . import common, poolsfam, schemafam
from .common import Inconclusive


def race_reports(log_prefix):
    """Parse the race detector's log files into reports; keep those whose stacks enter package validate."""
    reports = []
    d = os.path.dirname(log_prefix)
    for f in sorted(os.listdir(d)):
        if not f.startswith(os.path.basename(log_prefix)):
            continue
        text = open(os.path.join(d, f), errors="replace").read()
        for block in text.split("==================")[1:]:
            if "WARNING: DATA RACE" in block:
                reports.append(block.strip())
    ours = [r for r in reports if re.search(r"github\.com/go-openapi/validate(\.|/post\.)", r)]
    return reports, ours


def run(tier, seed):
    check = common.Check("C05", tier, seed, "model_checking")
    quick = tier == "quick"
    vh = common.build_vh()
    vhd = common.build_vh(tags=("verif", "validatedebug"))
    vhr = common.build_vh(race=True)
    # 1. ownership discipline under all interleavings: 2 goroutines on the pool life-cycle model, 3 on the regexp cache
    poolsfam.model(check, "2g-1call", "g1, g2", 1, panic=False)
    wd = common.workdir("C05-rexp")
    r = common.tlc_or_inconclusive(wd, "RegexpCache", 'SPECIFICATION Spec\nCONSTANTS\n  Gor = {g1, g2, g3}\n  Pats = {"p", "q", "bad"}\n  Bad = {"bad"}\n  MaxReq = 2\n'
                                   'INVARIANTS KeyIsSource ReturnedIsRequested MutexOK\nCHECK_DEADLOCK FALSE\n', workers=8, heap="6g")
    if r["violated"]:
        raise Inconclusive("RegexpCache spec bug")
    check.add_tlc(r)
    if not quick:
        # 2 goroutines x 2 calls is out of reach exhaustively (measured, see poolsfam.model_sim): random behaviours of larger configurations
        poolsfam.model_sim(check, "2g-2calls-6obj", "g1, g2", 2, False, 6, 6000)
        poolsfam.model_sim(check, "3g-2calls-7obj-panic", "g1, g2, g3", 2, True, 7, 6000)
    # 1c. the default options behind their mutex (Options.tla): race free as written; the pre-fix reader and the shape of a seeded
    #     unlocked fast path must both make TLC report NoRace (the model keeps its bite)
    OPT_CFG = "SPECIFICATION Spec\nCONSTANTS\n  Setters = {s1, s2}\n  Readers = {r1, r2}\n  ReaderLocks = %s\n  SetterFastPath = %s\nINVARIANTS NoRace MutexOK CopyIsSomeValue\nCHECK_DEADLOCK FALSE\n"
    for label, rl, fp, expect in (("options", "TRUE", "FALSE", None), ("options-reader-without-lock", "FALSE", "FALSE", "NoRace"), ("options-setter-fast-path", "TRUE", "TRUE", "NoRace")):
        r = common.tlc(common.workdir("C05-" + label), "Options", OPT_CFG % (rl, fp), timeout=600, workers=2, heap="1g")
        if r["timeout"] or r["error"] or r["violated"] != expect:
            raise Inconclusive("Options.tla (%s): expected %s, got %s\n%s" % (label, expect, r["violated"] or r["error"] or "timeout", r["out"][-800:]))
        if expect is None:
            check.add_tlc(r)
            check.coverage.setdefault("exhaustive_models", {})["options-2setters-2readers"] = dict(distinct_states=r["distinct"], transitions=r["states"], depth=r["depth"])
        else:
            check.coverage.setdefault("model_counterexamples_reproduced", []).append(label + ": NoRace violated, as expected")
    # 2. independence + ownership on real executions (outcomes vs alone/fresh references, pool monitor on the merged stream)
    gs = "2,8,32" if quick else "2,3,4,8,16,32,64"   # measured: one 64-goroutine x 150-call chunk keeps Trace_Pools busy for > 25 min
    n = 20 if quick else 50

    def run_driver(cmd, label, env=None):
        """The Go runtime itself ends the process when it sees an unsynchronised map access ("fatal error: concurrent map
        read and map write"): that is a data race observed on the real code, reported as such (any other death is inconclusive)."""
        p = common.run(cmd, env=env, timeout=7200, check=False)
        if p.returncode != 0:
            m = re.search(r"fatal error: (concurrent map[^\n]*)", p.stderr)
            if m:
                frames = re.findall(r"github\.com/go-openapi/validate\.[\w().*]+", p.stderr)[:4]
                check.violation(dict(family="concurrent", build=label, clause="DataRaceFree", fatal=m.group(1), frames=frames, stderr_head=p.stderr[:1500]),
                                "the Go runtime ended the driver: %s (%s) [%s]" % (m.group(1), " / ".join(frames[:2]), label))
                return False
            raise Inconclusive("command failed (%d): %s\n%s" % (p.returncode, " ".join(cmd), p.stderr[-3000:]))
        return True

    def conc(job):
        binary, name, args, full = job
        wdc = common.workdir("C05-" + name)
        if not run_driver([binary, "run-concurrent", "-out", wdc] + [str(a) for a in args], name):
            return
        meta = json.load(open(os.path.join(wdc, "meta.json")))
        cfg = "SPECIFICATION Spec\nINVARIANT Done\nCHECK_DEADLOCK FALSE\nCONSTANT FullStream = %s\n" % ("TRUE" if full else "FALSE")
        nfail = 0
        cks = schemafam.chunks(wdc)
        for c, rr in zip(cks, common.parallel(lambda c: common.tlc_or_inconclusive(c, "Trace_Pools", cfg, timeout=3600, heap="4g"), cks, jobs=4)):
            nev = sum(1 for _ in open(os.path.join(c, "events.ndjson")))
            if "TRACE-DONE" not in rr["out"] or rr["distinct"] != nev + 1:
                raise Inconclusive("pool trace not fully consumed: %s" % c)
            check.add_tlc(rr)
            inputs = common.read_ndjson(os.path.join(c, "inputs.ndjson"))
            for f in common.read_ndjson(os.path.join(c, "fails.ndjson")):
                nfail += 1
                if nfail <= 2:
                    check.violation(dict(family="concurrent", build=name, clause=f["clause"], pool=f["pool"], round=inputs[f["l"] - 1], outcome_mismatches=(meta.get("mismatches") or [])[:2]),
                                    "%s [%s, %s goroutines]" % (f["clause"], name, inputs[f["l"] - 1].get("goroutines")))
        if nfail == 0 and meta.get("mismatches"):
            raise Inconclusive("harness saw an outcome mismatch that the monitor did not")
        check.coverage["evaluations"] += meta["calls"]
        check.coverage["distinct_nontrivial"] += meta["distinct_nontrivial"]
        check.coverage["traces_validated_against_impl"] += meta["histories"]
        check.coverage["samples"] += meta["samples"][:1]
    # 3. data races: the same driver built with -race; the detector is the access-level observer
    wd = common.workdir("C05-race")
    log = os.path.join(wd, "race")
    env = dict(common.GOENV, GORACE="halt_on_error=0 log_path=%s exitcode=0" % log)
    variants = [["-g", "8,8,16,16,4,32" if quick else "2,8,16,32,64,8,16,4", "-n", 30 if quick else 100, "-spec-every", 0],
                ["-g", "4,16,8", "-n", 30, "-spec-every", 0, "-procs", 2],   # few OS threads: goroutines interleave by preemption
                # whole-specification validations under the race detector are ~10x slower: few goroutines, every 4th call
                ["-g", "3,4" if quick else "2,4,8", "-n", 8 if quick else 24, "-spec-every", 4]]
    if not quick:
        variants += [["-g", "4,16", "-n", 100, "-procs", 1], ["-g", "4,16,64", "-n", 100, "-procs", 4]]

    def race(job):
        k, v = job
        if not run_driver([vhr, "run-concurrent", "-seed", str(seed + 10 + k), "-record=false", "-out", os.path.join(wd, "run%d" % k)] + [str(a) for a in v], "race build %d" % k, env=env):
            return
        meta = json.load(open(os.path.join(wd, "run%d" % k, "meta.json")))
        check.coverage["evaluations"] += meta["calls"]
        check.coverage["distinct_nontrivial"] += meta["distinct_nontrivial"]
        for m in (meta.get("mismatches") or [])[:2]:
            check.violation(dict(family="concurrent-race-build", mismatch=m), "outcome differs from the same call alone (race build, class %s)" % m["class"])
    jobs = [(conc, (vh, "concurrent", ["-seed", seed, "-g", gs, "-n", n], False)),
            (conc, (vh, "concurrent-unpoisoned", ["-seed", seed + 2, "-g", "4,16" if quick else "2,4,8,16,32", "-n", n, "-poison=false"], False)),
            (conc, (vhd, "concurrent-debugpools", ["-seed", seed + 1, "-g", "2,8" if quick else "2,4,8,16", "-n", n, "-full"], True))]
    jobs += [(race, (k, v)) for k, v in enumerate(variants)]
    common.parallel_jobs(check, lambda j: j[0](j[1]), jobs, jobs=len(jobs))
    allr, ours = race_reports(log)
    check.coverage["race_reports_total"] = len(allr)
    check.coverage["race_reports_outside_validate"] = len(allr) - len(ours)
    seen = set()
    for rep in ours:
        key = tuple(re.findall(r"validate\.[\w().*]+", rep)[:4])
        if key in seen:
            continue
        seen.add(key)
        check.violation(dict(family="data-race", report=rep[:6000]), "data race reported by the race detector: " + " / ".join(key[:2]))
    check.coverage["rule"] = ("2..64 goroutines, each with its own seeded sequence over: one-shot validation, recycling schema/param/header validators, whole-spec validation of per-goroutine "
                              "documents, shared long-lived validators (schemas without $ref, with and without the Swagger options), the value helpers, Pattern, and the package-level "
                              "SetContinueOnErrors. Every outcome must equal the call's alone/fresh reference; the merged borrow/redeem stream (tickets taken at the hook sites) is validated by "
                              "Trace_Pools.tla; the same driver built with -race must produce no report whose stack enters package validate. non-trivial = calls executed concurrently.")
    check.assumptions = ["Go's race detector observes memory accesses; the TLA+ models decide ownership and independence", "races whose stacks never enter package validate are counted but do not affect the verdict"]
    return check.finish()
