---------------------------- MODULE Trace_Total ----------------------------
(***************************************************************************)
(* C06: schema validation always terminates with a verdict.                 *)
(*                                                                          *)
(* One event = one (schema, instance) pair run through both entry points,   *)
(* both number carriers and all public option combinations; outs is the     *)
(* sequence of outcomes of those runs.  The total-outcome clause of the     *)
(* specification: every run ends with a verdict; the documented panic       *)
(* ("docpanic") is an admissible outcome only for a schema that uses a      *)
(* reference which does not resolve.                                        *)
(***************************************************************************)
EXTENDS Json, TLC, Sequences, Integers, FiniteSets
CONSTANT OpenDevs
Trace == ndJsonDeserialize("events.ndjson")
VARIABLES l, fails
vars == <<l, fails>>

SeqToSet(q) == {q[j] : j \in 1..Len(q)}
Resolvable(ev) == SeqToSet(ev.refs) \subseteq SeqToSet(ev.dk)

OutcomeOK(ev, o) == \/ o \in {"valid", "invalid"}
                    \/ o = "docpanic" /\ ~Resolvable(ev)

Check(ev, k) ==
  {[l |-> k, n |-> ev.n, clause |-> ev.labels[j], want |-> "valid|invalid", got |-> ev.outs[j], dev |-> ""] :
      j \in {q \in 1..Len(ev.outs) : ~OutcomeOK(ev, ev.outs[q])}}

Init == l = 1 /\ fails = {}
Next == /\ l <= Len(Trace)
        /\ l' = l + 1
        /\ fails' = fails \cup Check(Trace[l], l)
Spec == Init /\ [][Next]_vars

RECURSIVE SetToSeq(_)
SetToSeq(S) == IF S = {} THEN <<>> ELSE LET x == CHOOSE x \in S : TRUE IN <<x>> \o SetToSeq(S \ {x})
Done == l = Len(Trace) + 1 =>
          /\ ndJsonSerialize("fails.ndjson", SetToSeq(fails))
          /\ PrintT(<<"TRACE-DONE", Len(Trace), Cardinality(fails)>>)
=============================================================================
