package gen

import "strings"

// DegenerateSchemas are schemas that decode but are unusual: empty lists, negative or huge bounds,
// multipleOf <= 0, invalid regular expressions, unknown types and formats, keywords that do not apply
// to the instance kind, and unresolvable references (for which a panic is the documented outcome).
var DegenerateSchemas = []string{
	`{}`, `{"enum":[]}`, `{"required":[]}`, `{"items":[]}`, `{"allOf":[]}`, `{"anyOf":[]}`, `{"oneOf":[]}`, `{"type":[]}`, `{"type":"foo"}`, `{"type":["foo","string"]}`, `{"type":"file"}`,
	`{"minLength":-1}`, `{"maxLength":-5}`, `{"minItems":-1}`, `{"maxItems":-1}`, `{"minProperties":-1}`, `{"maxProperties":-2}`,
	`{"maxLength":4611686018427387904}`, `{"minItems":4611686018427387904}`, `{"minimum":1e308}`, `{"maximum":-1e308}`, `{"minimum":1e-320}`, `{"maximum":1e308,"exclusiveMaximum":true}`,
	`{"multipleOf":0}`, `{"multipleOf":-2}`, `{"multipleOf":1e-320}`, `{"multipleOf":1e308}`, `{"multipleOf":0.0000001}`,
	`{"type":"integer","multipleOf":0.5}`, `{"type":"integer","maximum":1e308}`, `{"type":"integer","minimum":-1e308}`, `{"type":"integer","maximum":0.5}`, `{"type":"number","minimum":9007199254740993}`,
	`{"pattern":"("}`, `{"pattern":"[a-"}`, `{"patternProperties":{"(":{"type":"integer"}}}`, `{"patternProperties":{"[":{}},"additionalProperties":false}`,
	`{"patternProperties":{"(":{"type":"integer"}},"required":["a"]}`, `{"pattern":"\\p{Foo}"}`,
	`{"format":"nosuchformat"}`, `{"format":"date"}`, `{"type":"integer","format":"date"}`, `{"type":"array","format":"byte"}`, `{"type":"object","format":"uuid"}`,
	`{"type":"number","format":"int32"}`, `{"type":"integer","format":"uint64"}`, `{"type":"boolean","format":"date"}`, `{"type":"null","format":"email"}`,
	`{"additionalItems":{"type":"integer"}}`, `{"additionalItems":false}`, `{"items":{},"additionalItems":{"type":"string"}}`, `{"items":[],"additionalItems":false}`, `{"items":[],"additionalItems":{"type":"integer"}}`,
	`{"dependencies":{"a":[]}}`, `{"dependencies":{}}`, `{"properties":{}}`, `{"patternProperties":{}}`, `{"dependencies":{"a":{}}}`,
	`{"not":{}}`, `{"not":{"not":{}}}`, `{"exclusiveMinimum":true}`, `{"exclusiveMaximum":true}`, `{"uniqueItems":true,"items":[]}`,
	`{"required":["a","a"]}`, `{"enum":[1,1]}`, `{"enum":[null]}`, `{"enum":[[]]}`, `{"enum":[{}]}`, `{"readOnly":true}`, `{"discriminator":"x"}`, `{"x-nullable":true,"type":"string"}`,
	`{"default":1,"type":"string"}`, `{"id":"http://example.com/s"}`, `{"title":"t","description":"d","example":[1]}`,
	`{"properties":{"a":{"default":5}},"required":["a"]}`, `{"properties":{"":{"type":"integer"}},"required":[""]}`, `{"properties":{"a.b":{"type":"integer"}}}`,
	// members named like schema keywords (the Swagger-specific object checks look at the last path segments)
	`{"properties":{"default":{"type":"object"},"properties":{"type":"object"},"example":{},"examples":{"type":"object"},"items":{},"type":{}}}`,
	`{"properties":{"properties":{"properties":{"properties":{"type":"object"}}}}}`, `{"additionalProperties":{"properties":{"default":{}}}}`,
	`{"oneOf":[{},{}]}`, `{"anyOf":[{"enum":[]}]}`, `{"allOf":[{"not":{}}]}`, `{"oneOf":[{"multipleOf":0}]}`,
	`{"minProperties":1,"type":"array"}`, `{"minItems":1,"type":"object"}`, `{"minLength":1,"type":"integer"}`, `{"minimum":1,"type":"string"}`,
	// unresolvable references: the documented panic (at construction or lazily) is allowed
	`{"$ref":"#/definitions/nowhere"}`, `{"properties":{"a":{"$ref":"#/definitions/nowhere"}}}`, `{"items":{"$ref":"#/nowhere"}}`, `{"allOf":[{"$ref":"#/definitions/x"}],"definitions":{"y":{}}}`,
	`{"additionalProperties":{"$ref":"#/definitions/nowhere"}}`, `{"patternProperties":{"a":{"$ref":"#/definitions/nowhere"}}}`, `{"dependencies":{"a":{"$ref":"#/definitions/nowhere"}}}`,
	`{"not":{"$ref":"#/definitions/nowhere"}}`, `{"items":[{},{"$ref":"#/definitions/nowhere"}]}`, `{"additionalItems":{"$ref":"#/definitions/nowhere"},"items":[{}]}`,
	`{"anyOf":[{"type":"string"},{"$ref":"#/definitions/nowhere"}]}`, `{"oneOf":[{"$ref":"#/definitions/nowhere"}]}`,
	// resolvable references next to degenerate keywords
	`{"definitions":{"e":{"enum":[]}},"properties":{"a":{"$ref":"#/definitions/e"}}}`, `{"definitions":{"p":{"pattern":"("}},"items":{"$ref":"#/definitions/p"}}`,
	`{"definitions":{"a":{"$ref":"#/definitions/b"},"b":{"type":"integer"}},"allOf":[{"$ref":"#/definitions/a"}]}`,
	// recursive references that descend into the instance (finite on every finite instance)
	`{"definitions":{"t":{"properties":{"k":{"$ref":"#/definitions/t"},"a":{"enum":[]}}}},"properties":{"a":{"$ref":"#/definitions/t"}}}`,
	`{"definitions":{"l":{"items":{"$ref":"#/definitions/l"},"maxItems":-1}},"items":{"$ref":"#/definitions/l"}}`,
	`{"definitions":{"m":{"additionalProperties":{"$ref":"#/definitions/m"}}},"additionalProperties":{"$ref":"#/definitions/m"}}`,
}

func nest(open, close, core string, n int) string {
	return strings.Repeat(open, n) + core + strings.Repeat(close, n)
}

// DegenerateInstances: every JSON kind, extreme numbers, deep nesting, odd keys.
var DegenerateInstances = []string{
	`null`, `true`, `false`, `0`, `-0.0`, `1`, `1.5`, `-1`, `1e308`, `-1e308`, `5e-324`, `9007199254740993`, `18446744073709551616`, `-9223372036854775809`, `0.1`, `1E5`,
	`123456789012345678901234567890`, `1e400`, `""`, `"a"`, `"\u0000"`, `"2020-01-01"`, `"é日本"`, `"` + strings.Repeat("x", 5000) + `"`,
	`[]`, `[1]`, `[1,"a",null]`, `[null]`, `[1,1]`, nest("[", "]", "1", 30), `{}`, `{"a":1}`, `{"a":null}`, `{"":1}`, `{"a.b":1}`, `{"a":"x","b":[1]}`,
	nest(`{"a":`, "}", "1", 30), `{"default":{},"properties":{"a":1},"example":{"items":[]},"examples":{"x":{}},"items":{"type":"x"},"type":{}}`,
	`{"properties":{"properties":{"properties":{"items":1}}}}`, `{"k":{"default":{"items":{}}}}`, `{"items":[],"type":"array"}`, `{"items":{}}`, `[{"a":[{"a":[]}]}]`, `{"a":{"a":{}}}`, `[[],[]]`, `{"a":1,"b":2,"c":3}`,
}
