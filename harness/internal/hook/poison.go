// Package hook holds the run-time instrumentation of the harness: the poisoner ("scribbler") that
// overwrites objects at the instant they are returned to a pool, fresh mode, and the event recorder.
package hook

import (
	"fmt"
	"reflect"
	"sync"
	"sync/atomic"
	"unsafe"

	"github.com/go-openapi/spec"
)

// PoisonErr is the error planted in scribbled error lists.
type PoisonErr struct{ N int64 }

func (p PoisonErr) Error() string { return fmt.Sprintf("\x00POISON%d", p.N) }

var (
	poisonN  int64
	junkSch  = &spec.Schema{SchemaProps: spec.SchemaProps{ID: "\x00POISON", Title: "\x00POISON"}}
	imagesMu sync.Mutex
	images   = map[unsafe.Pointer][]byte{}
)

func shallowBytes(p unsafe.Pointer, n uintptr) []byte {
	b := make([]byte, n)
	copy(b, unsafe.Slice((*byte)(p), n))
	return b
}

func settable(f reflect.Value) reflect.Value {
	return reflect.NewAt(f.Type(), unsafe.Pointer(f.UnsafeAddr())).Elem()
}

func poisonValue(f reflect.Value, depth int, n int64) {
	switch f.Kind() {
	case reflect.String:
		f.SetString(fmt.Sprintf("\x00POISON%d", n))
	case reflect.Bool:
		f.SetBool(n%2 == 0)
	case reflect.Int, reflect.Int64, reflect.Int32:
		f.SetInt(-987654321)
	case reflect.Float64:
		f.SetFloat(-9.87654321e8)
	case reflect.Ptr:
		switch f.Type().Elem().Kind() {
		case reflect.Float64:
			v := -9.87654321e8
			f.Set(reflect.ValueOf(&v))
		case reflect.Int64:
			v := int64(-987654321)
			f.Set(reflect.ValueOf(&v))
		case reflect.Struct:
			if f.Type() == reflect.TypeOf(junkSch) {
				f.Set(reflect.ValueOf(junkSch))
			} else {
				// a junk zero object of the right type (for options: all recycling flags off)
				f.Set(reflect.New(f.Type().Elem()))
			}
		default:
			f.Set(reflect.Zero(f.Type()))
		}
	case reflect.Slice:
		// Scribble the backing array IN PLACE only where the array is owned by the pooled object itself (error
		// lists and schemata of a Result, child-validator lists): an alias kept by somebody else now sees junk.
		// Slices borrowed from the caller's schema (AllOf, Required, Enum, Type, ...) are only replaced.
		if f.Cap() > 0 {
			et := f.Type().Elem()
			own := (et.Kind() == reflect.Interface && et.Name() == "error") || et == reflect.TypeOf(junkSch) ||
				(et.Kind() == reflect.Ptr && et.Elem().Name() == "SchemaValidator") ||
				(et.Kind() == reflect.Struct && (et.Name() == "fieldSchemata" || et.Name() == "itemSchemata"))
			if own {
				full := f.Slice3(0, f.Cap(), f.Cap())
				for i := 0; i < full.Len(); i++ {
					e := full.Index(i)
					switch {
					case et.Kind() == reflect.Interface:
						e.Set(reflect.ValueOf(PoisonErr{n}))
					case et == reflect.TypeOf(junkSch):
						e.Set(reflect.ValueOf(junkSch))
					case et.Kind() == reflect.Ptr:
						e.Set(reflect.Zero(et))
					case et.Kind() == reflect.Struct:
						for j := 0; j < e.NumField(); j++ {
							ff := e.Field(j)
							if ff.CanAddr() && ff.Kind() != reflect.Slice && ff.Kind() != reflect.Map && ff.Kind() != reflect.Struct {
								poisonValue(settable(ff), depth+1, n)
							}
						}
					}
				}
			}
		}
		// ... and leave a poisoned non-empty list behind (a reader of the redeemed object sees junk)
		if f.Type().Elem().Kind() == reflect.Interface && f.Type().Elem().Name() == "error" {
			f.Set(reflect.ValueOf([]error{PoisonErr{n}}))
		} else {
			f.Set(reflect.Zero(f.Type()))
		}
	case reflect.Interface:
		f.Set(reflect.Zero(f.Type()))
	case reflect.Array:
		for i := 0; i < f.Len(); i++ {
			poisonValue(f.Index(i), depth+1, n)
		}
	case reflect.Struct:
		if depth < 2 {
			for i := 0; i < f.NumField(); i++ {
				ff := f.Field(i)
				if ff.CanAddr() {
					poisonValue(settable(ff), depth+1, n)
				}
			}
		}
	case reflect.Map:
		f.Set(reflect.Zero(f.Type()))
	}
}

// Poison overwrites every field of *obj with type-correct junk and remembers the byte image it left.
// It returns untouched = true when the object still carries the image of a previous poisoning, i.e. it
// has been redeemed twice without having been (re)built in between.
func Poison(obj any) (untouched bool) {
	if sch, ok := obj.(*spec.Schema); ok {
		// the scratch schema is a shallow copy of a caller-owned schema: it shares slices and maps with it,
		// so it is only overwritten as a whole, never scribbled in depth
		if sch != nil {
			*sch = spec.Schema{SchemaProps: spec.SchemaProps{ID: "\x00POISON", Title: "\x00POISON", Type: spec.StringOrArray{"\x00POISON"}}}
		}
		return false
	}
	v := reflect.ValueOf(obj)
	if v.Kind() != reflect.Ptr || v.IsNil() {
		return false
	}
	p := v.UnsafePointer()
	sz := v.Elem().Type().Size()
	imagesMu.Lock()
	img, seen := images[p]
	imagesMu.Unlock()
	if seen && string(img) == string(shallowBytes(p, sz)) {
		untouched = true
	}
	n := atomic.AddInt64(&poisonN, 1)
	e := v.Elem()
	for i := 0; i < e.NumField(); i++ {
		poisonValue(settable(e.Field(i)), 0, n)
	}
	now := shallowBytes(p, sz)
	imagesMu.Lock()
	images[p] = now
	imagesMu.Unlock()
	return untouched
}

// Forget drops all remembered images (between independent runs).
func Forget() {
	imagesMu.Lock()
	images = map[unsafe.Pointer][]byte{}
	imagesMu.Unlock()
}

// IsPoison tells whether a message comes from a scribbled object.
func IsPoison(s string) bool { return len(s) > 0 && s[0] == 0 }
