package main

import (
	"bytes"
	"encoding/json"
	"flag"
	"fmt"
	"math/rand"
	"os"
	"path/filepath"
	"runtime/debug"
	"strings"
	"time"

	"github.com/go-openapi/spec"
	"github.com/go-openapi/strfmt"
	"github.com/go-openapi/validate"

	"verifharness/internal/enc"
	"verifharness/internal/gen"
)

func init() { commands["drive-total"] = driveTotal }

// collectRefs returns the names of all references used by a schema (generic JSON form), definitions included.
func collectRefs(s interface{}, out *[]interface{}) {
	switch x := s.(type) {
	case map[string]interface{}:
		for k, v := range x {
			if k == "$ref" {
				if r, ok := v.(string); ok {
					*out = append(*out, enc.RefName(r))
				}
				continue
			}
			if k == "enum" || k == "default" || k == "example" {
				continue
			}
			collectRefs(v, out)
		}
	case []interface{}:
		for _, v := range x {
			collectRefs(v, out)
		}
	}
}

var optionCombos = func() [][]validate.Option {
	var out [][]validate.Option
	for m := 0; m < 16; m++ {
		out = append(out, []validate.Option{
			validate.EnableObjectArrayTypeCheck(m&1 != 0), validate.EnableArrayMustHaveItemsCheck(m&2 != 0),
			validate.WithRecycleValidators(m&4 != 0), validate.WithSkipSchemataResult(m&8 != 0),
		})
	}
	return out
}()

const docPanicPrefix = "Invalid schema provided to SchemaValidator"

// totalCase runs one (schema, instance) pair through both entry points x both number carriers x all option
// combinations and records the outcome of every run.
func totalCase(idx int, schemaText, instText []byte, reg strfmt.Registry) (enc.M, bool) {
	var probe spec.Schema
	if err := json.Unmarshal(schemaText, &probe); err != nil {
		return nil, false // the property only speaks about schemas that decode
	}
	sg, err := decodeNumber(schemaText)
	if err != nil {
		return nil, false
	}
	refs := []interface{}{}
	collectRefs(sg, &refs)
	dk := []interface{}{}
	if m, ok := sg.(map[string]interface{}); ok {
		if defs, ok := m["definitions"].(map[string]interface{}); ok {
			for k := range defs {
				dk = append(dk, enc.Pct(k))
			}
		}
	}
	outs := []interface{}{}
	labels := []interface{}{}
	for _, carrier := range []string{"float64", "jsonNumber"} {
		for oi, opts := range optionCombos {
			for _, entry := range []string{"oneshot", "validator", "oneshot-nilregistry", "validator-nilregistry"} {
				if strings.HasPrefix(entry, "oneshot") && oi&4 != 0 {
					continue // AgainstSchema always recycles: the flag adds nothing
				}
				reg := reg
				if strings.HasSuffix(entry, "-nilregistry") {
					if oi != 0 && oi != 4 {
						continue // without a format registry (a nil interface is a legal argument): default options only
					}
					reg = nil
				}
				out := ""
				st, pv := guarded(30*time.Second, func() {
					var s spec.Schema
					_ = json.Unmarshal(schemaText, &s)
					var data interface{}
					if carrier == "float64" {
						if err := json.Unmarshal(instText, &data); err != nil {
							out = "skip" // e.g. 1e400 cannot be carried by a float64
							return
						}
					} else {
						d := json.NewDecoder(bytes.NewReader(instText))
						d.UseNumber()
						_ = d.Decode(&data)
					}
					if strings.HasPrefix(entry, "oneshot") {
						if validate.AgainstSchema(&s, data, reg, opts...) == nil {
							out = "valid"
						} else {
							out = "invalid"
						}
						return
					}
					res := validate.NewSchemaValidator(&s, nil, "", reg, opts...).Validate(data)
					if res == nil {
						out = "nilresult"
					} else if res.IsValid() {
						out = "valid"
					} else {
						out = "invalid"
					}
				})
				if st == "panic" {
					out = "panic"
					if s, ok := pv.(string); ok && strings.HasPrefix(s, docPanicPrefix) {
						out = "docpanic"
					}
				} else if st == "hang" {
					out = "hang"
				}
				if out == "skip" {
					continue
				}
				outs = append(outs, out)
				labels = append(labels, fmt.Sprintf("%s/%s/opts%d", entry, carrier, oi))
			}
		}
	}
	return enc.M{"ev": "total", "n": idx, "refs": refs, "dk": dk, "outs": outs, "labels": labels}, true
}

func driveTotal(args []string) error {
	fs := flag.NewFlagSet("drive-total", flag.ExitOnError)
	mode := fs.String("mode", "table", "table | random")
	seed := fs.Int64("seed", 1, "seed")
	n := fs.Int("n", 300, "random schemas / cap on table pairs (0 = all)")
	out := fs.String("out", "", "output directory")
	chunk := fs.Int("chunk", 3000, "events per chunk")
	crashed := fs.String("crashed", "", "comma separated <pair number>:<how> of pairs that killed (or hung) an earlier attempt of this run: reported, not run again")
	onlyCrashed := fs.Bool("only-crashed", false, "report the pairs listed in -crashed and run nothing (too many attempts died: the tree kills the driver at many pairs)")
	fs.Parse(args)
	crashedHow := map[string]string{}
	for _, c := range strings.Split(*crashed, ",") {
		if parts := strings.Split(c, ":"); len(parts) == 2 {
			crashedHow[parts[0]] = parts[1]
		}
	}
	debug.SetMaxStack(192 << 20)
	_ = os.MkdirAll(*out, 0o755)
	pairNo := 0
	reg := strfmt.Default
	w := newChunkWriter(*out, *chunk)
	defer w.close()
	r := rand.New(rand.NewSource(*seed))
	distinct := map[string]struct{}{}
	var samples []interface{}
	runs := 0
	emit := func(st, it []byte) error {
		// same protocol as drive-spec: the pair is noted before it runs; a pair that hangs ends the process at once (an
		// abandoned goroutine may end it at any later point), a pair that ends it with a fatal error is found noted
		pairNo++
		var ev enc.M
		ok := true
		if how, dead := crashedHow[fmt.Sprint(pairNo)]; dead {
			ev = enc.M{"ev": "total", "n": w.n + 1, "refs": []interface{}{}, "dk": []interface{}{}, "outs": []interface{}{how}, "labels": []interface{}{"the driver process (earlier attempt)"}}
		} else if *onlyCrashed {
			return nil
		} else {
			_ = os.WriteFile(filepath.Join(*out, "current.txt"), []byte(fmt.Sprint(pairNo)), 0o644)
			ev, ok = totalCase(w.n+1, st, it, reg)
			if ok {
				for _, o := range ev["outs"].([]interface{}) {
					if o == "hang" {
						w.close()
						_ = os.WriteFile(filepath.Join(*out, "current.txt"), []byte(fmt.Sprintf("%d:hang", pairNo)), 0o644)
						os.Exit(5)
					}
				}
			}
		}
		if !ok {
			return nil
		}
		distinct[digest(string(st), string(it))] = struct{}{}
		runs += len(ev["outs"].([]interface{}))
		if len(samples) < 4 && w.n%211 == 0 {
			samples = append(samples, map[string]interface{}{"schema": json.RawMessage(st), "instance": string(it[:minInt(len(it), 200)]), "outcomes": ev["outs"].([]interface{})[:minInt(4, len(ev["outs"].([]interface{})))]})
		}
		return w.write(ev, map[string]interface{}{"schema": json.RawMessage(st), "inst": json.RawMessage(it)})
	}
	switch *mode {
	case "table":
		// every degenerate schema alone, and unions with a seeded sample of the pairwise universe
		var schemas [][]byte
		for _, s := range gen.DegenerateSchemas {
			schemas = append(schemas, []byte(s))
		}
		normal := gen.PairwiseSchemas()
		perm := r.Perm(len(normal))
		extra := *n
		if extra == 0 || extra > len(perm) {
			extra = len(perm)
		}
		for k := 0; k < extra; k++ {
			a := gen.DegenerateSchemas[r.Intn(len(gen.DegenerateSchemas))]
			var am map[string]interface{}
			_ = json.Unmarshal([]byte(a), &am)
			for key, v := range normal[perm[k]] {
				if _, clash := am[key]; !clash {
					am[key] = v
				}
			}
			b, _ := json.Marshal(am)
			schemas = append(schemas, b)
		}
		for _, st := range schemas {
			for _, it := range gen.DegenerateInstances {
				if err := emit(st, []byte(it)); err != nil {
					return err
				}
			}
		}
	case "random":
		for i := 0; i < *n; i++ {
			s := gen.RRoot(r, 3, gen.SchemaOpts{Format: true, Defaults: true, Degen: true})
			st, _ := json.Marshal(s)
			for j := 0; j < 3; j++ {
				var it []byte
				if r.Intn(3) == 0 {
					it = []byte(gen.DegenerateInstances[r.Intn(len(gen.DegenerateInstances))])
				} else {
					it, _ = json.Marshal(gen.RInst(r, 4))
				}
				if err := emit(st, it); err != nil {
					return err
				}
			}
		}
	}
	w.close()
	return writeJSONFile(filepath.Join(*out, "meta.json"), map[string]interface{}{
		"events": w.n, "runs": runs, "distinct": len(distinct), "distinct_nontrivial": len(distinct), "samples": samples,
	})
}

func minInt(a, b int) int {
	if a < b {
		return a
	}
	return b
}
