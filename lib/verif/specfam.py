"""Whole-specification checks (C02, C07, C10): sharded drive-spec runs validated by Trace_SpecRun.tla."""
import json, os, shutil
from . import common, schemafam
from .common import Inconclusive


def cfg(clauses, devs):
    return ("SPECIFICATION Spec\nINVARIANT Done\nCHECK_DEADLOCK FALSE\nCONSTANTS\n  Clauses = %s\n  OpenDevs = %s\n  ErrMsgs = {}\n  WarnMsgs = {}\n  Contributing = {}\n"
            % (common.tla_set(clauses), common.tla_set(devs)))


def run_spec(check, vh, name, args, clauses, devs, shards=8, on_fail=None, docs_file=None):
    base = common.workdir("%s-%s" % (check.prop, name))
    metas = []

    def shard(k):
        wd = os.path.join(base, "shard%d" % k)
        a = [vh, "drive-spec", "-out", wd, "-shard", "%d/%d" % (k, shards)] + [str(x) for x in args]
        if docs_file:
            a += ["-docs", docs_file]
        # a validation that hangs or kills the driver (fatal error) is reported as hang / crash, see common.run_resumable
        common.run_resumable(a, wd, name)
        meta = json.load(open(os.path.join(wd, "meta.json")))
        fails_all = []
        for c in schemafam.chunks(wd):
            if "C02" in clauses:
                shutil.copyfile(os.path.join(wd, "swagger.ndjson"), os.path.join(c, "swagger.ndjson"))
            rr = common.tlc_or_inconclusive(c, "Trace_SpecRun", cfg(clauses, devs), timeout=3600, heap="4g")
            n = sum(1 for _ in open(os.path.join(c, "events.ndjson")))
            if "TRACE-DONE" not in rr["out"] or rr["distinct"] != n + 1:
                raise Inconclusive("spec trace not fully consumed: %s\n%s" % (c, rr["out"][-1500:]))
            check.add_tlc(rr)
            inputs = common.read_ndjson(os.path.join(c, "inputs.ndjson"))
            for f in common.read_ndjson(os.path.join(c, "fails.ndjson")):
                f["input"] = inputs[f["l"] - 1]
                fails_all.append(f)
        return meta, fails_all
    fails = []
    for meta, fl in common.parallel(shard, list(range(shards)), jobs=shards):
        metas.append(meta)
        fails += fl
    check.coverage["evaluations"] += sum(m["runs"] for m in metas)
    check.coverage["distinct_nontrivial"] += sum(m["distinct_nontrivial"] for m in metas)
    check.coverage["traces_validated_against_impl"] += sum(m["runs"] for m in metas)
    for m in metas[:2]:
        check.coverage["samples"] += (m["samples"] or [])[:1]
    outcomes = {}
    for m in metas:
        for k, v in m["outcomes"].items():
            outcomes[k] = outcomes.get(k, 0) + v
    check.coverage.setdefault("outcomes", {})
    for k, v in outcomes.items():
        check.coverage["outcomes"][k] = check.coverage["outcomes"].get(k, 0) + v
    if on_fail:
        on_fail(fails)
    return fails


def live_spec_devs(check, vh, known, clauses):
    """Witness documents of the open findings: honoured only while they still fail."""
    if not known:
        return {}
    wd = common.workdir("%s-witness" % check.prop)
    names = sorted(known)
    docs = os.path.join(wd, "witness-docs.ndjson")
    with open(docs, "w") as f:
        for n in names:
            f.write(json.dumps(json.load(open(known[n]["witness"]))["doc"]) + "\n")
    fails = run_spec(check, vh, "witnessrun", ["-bases", -1, "-raw"] if "C02" in clauses else ["-bases", -1], clauses, names, shards=1, docs_file=docs)
    live = {}
    for k, n in enumerate(names):
        if any(f["input"].get("edit") == "(given)" and f.get("dev") in (n, "combined") for f in fails):
            live[n] = known[n]
            check.known(n, known[n]["text"])
        else:
            common.log("[known] witness of %s no longer fails" % n)
    return live


def report(check, fails, live, family="spec"):
    seen = set()
    drift = 0
    for f in fails:
        dev = f.get("dev", "")
        if dev == "model-drift":
            # the code no longer follows the ORDER of phases / early-stop policy of SpecValidator.tla: that order is the present
            # implementation, not a property - noted, never a violation (the property-level part of the trace is IsRunCore)
            drift += 1
            if drift == 1:
                common.log("NOTE model drift: %s [base %s, edit: %s] %s" % (f["clause"], f["input"].get("base"), f["input"].get("edit"), str(f.get("got"))[:300]))
            continue
        if dev == "combined":
            for n in live:
                check.known(n, live[n]["text"])
            continue
        if dev and dev in live:
            check.known(dev, live[dev]["text"])
            continue
        key = (f["clause"], f["input"].get("edit"), f["input"].get("base"))
        if key in seen:
            continue
        seen.add(key)
        check.violation(dict(family=family, clause=f["clause"], want=f.get("want"), got=f.get("got"), input=f["input"]),
                        "%s [base %s, edit: %s]%s" % (f["clause"], f["input"].get("base"), f["input"].get("edit"), (" panic: " + f["input"]["panic"][:160]) if f["input"].get("panic") else ""))
    if drift:
        check.coverage["phase_traces_not_following_the_model"] = check.coverage.get("phase_traces_not_following_the_model", 0) + drift
