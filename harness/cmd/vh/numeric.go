package main

import (
	"encoding/json"
	"flag"
	"fmt"
	"math"
	"math/big"
	"math/rand"
	"os"
	"path/filepath"
	"strconv"
	"strings"
	"time"

	"github.com/go-openapi/spec"
	"github.com/go-openapi/strfmt"
	"github.com/go-openapi/validate"

	"verifharness/internal/enc"
)

func init() { commands["drive-numeric"] = driveNumeric }

var numTable = []string{"0", "1", "-1", "2", "3", "-3", "5", "7", "0.5", "-0.5", "1.5", "2.5", "-2.5", "3.5", "-3.5", "0.1", "0.3", "0.01", "0.07", "0.000001",
	"127", "128", "-128", "-129", "255", "256", "32767", "32768", "65535", "65536", "2147483647", "2147483648", "-2147483648", "-2147483649", "4294967295", "4294967296",
	"9007199254740991", "9007199254740992", "-9007199254740991", "-9007199254740992", "1000000000.5", "123456789012.5", "100", "10", "1000000", "6", "0.25", "12.5", "-7.5",
	// instance values are only bounded by the range of their type: the extremes of the 64-bit kinds
	"9223372036854775807", "9223372036854774783", "-9223372036854775808", "18446744073709551615", "4611686018427387904", "9007199254740993",
	// small negative integers against small factors: sign handling of the integer multipleOf paths
	"-9", "9", "-10", "-6", "4", "-4", "-15"}

var numKinds = []string{"float64", "float32", "int", "int8", "int16", "int32", "int64", "uint", "uint8", "uint16", "uint32", "uint64", "jsonNumber",
	// defined types of a numeric kind carry numbers like their underlying type does
	"int64/duration", "uint32/filemode", "int32/defined", "float64/defined"}

type definedInt32 int32
type definedFloat64 float64

// wrapDefined converts the value of a builtin kind into a defined type of the same kind
func wrapDefined(variant string, x interface{}) interface{} {
	switch variant {
	case "int64/duration":
		return time.Duration(x.(int64))
	case "uint32/filemode":
		return os.FileMode(x.(uint32))
	case "int32/defined":
		return definedInt32(x.(int32))
	case "float64/defined":
		return definedFloat64(x.(float64))
	}
	return x
}

// asKind carries the decimal s in the given Go kind when it is exactly representable there.
func asKind(kind, s string) (interface{}, bool) {
	r, ok := new(big.Rat).SetString(s)
	if !ok {
		return nil, false
	}
	f, exact := r.Float64()
	isInt := r.IsInt()
	inI := func(lo, hi int64) bool {
		return isInt && r.Cmp(new(big.Rat).SetInt64(lo)) >= 0 && r.Cmp(new(big.Rat).SetInt64(hi)) <= 0
	}
	inU := func(hi uint64) bool {
		return isInt && r.Sign() >= 0 && r.Cmp(new(big.Rat).SetInt(new(big.Int).SetUint64(hi))) <= 0
	}
	// a float64 / json.Number carries every decimal of at most 15 significant digits (it round-trips through the
	// shortest representation); float32 and the integer kinds carry a value only when it is exactly representable
	sig := len(strings.TrimLeft(strings.ReplaceAll(strings.TrimPrefix(s, "-"), ".", ""), "0"))
	switch kind {
	case "float64":
		return f, (exact || sig <= 15) && math.Abs(f) <= 1<<53
	case "jsonNumber":
		return json.Number(s), (exact || sig <= 15) && math.Abs(f) <= 1<<53
	case "float32":
		return float32(f), exact && float64(float32(f)) == f
	case "int":
		return int(r.Num().Int64()), inI(math.MinInt64, math.MaxInt64)
	case "int8":
		return int8(f), inI(math.MinInt8, math.MaxInt8)
	case "int16":
		return int16(f), inI(math.MinInt16, math.MaxInt16)
	case "int32":
		return int32(f), inI(math.MinInt32, math.MaxInt32)
	case "int64":
		return r.Num().Int64(), inI(math.MinInt64, math.MaxInt64)
	case "uint":
		return uint(r.Num().Uint64()), inU(math.MaxUint64)
	case "uint8":
		return uint8(f), inU(math.MaxUint8)
	case "uint16":
		return uint16(f), inU(math.MaxUint16)
	case "uint32":
		return uint32(f), inU(math.MaxUint32)
	case "uint64":
		return r.Num().Uint64(), inU(math.MaxUint64)
	}
	return nil, false
}

func okfail(isNil bool) string {
	if isNil {
		return "ok"
	}
	return "fail"
}

// typeFormatFor returns the (type, format) pairs under which a value of this kind is "inside the range of the declared type/format"
func typeFormatFor(kind string, isInt, small bool) [][2]string {
	switch kind {
	case "float64":
		if isInt && small {
			return [][2]string{{"number", ""}, {"number", "double"}, {"integer", ""}}
		}
		return [][2]string{{"number", ""}, {"number", "double"}}
	case "float32":
		return [][2]string{{"number", "float"}, {"number", ""}}
	case "int8", "int16", "int32":
		return [][2]string{{"integer", "int32"}, {"integer", ""}, {"number", ""}}
	case "int", "int64":
		return [][2]string{{"integer", "int64"}, {"integer", ""}, {"number", ""}}
	case "uint8", "uint16", "uint32":
		return [][2]string{{"integer", "uint32"}, {"integer", "int64"}, {"number", ""}}
	case "uint", "uint64":
		return [][2]string{{"integer", "uint64"}, {"number", ""}}
	}
	return nil
}

func driveNumeric(args []string) error {
	fs := flag.NewFlagSet("drive-numeric", flag.ExitOnError)
	seed := fs.Int64("seed", 1, "seed")
	mode := fs.String("mode", "table", "table | random")
	n := fs.Int("n", 3000, "random (value, bound) pairs / 0 = whole table")
	out := fs.String("out", "", "output directory")
	witness := fs.String("witness", "", "comma separated witness files (mode witness)")
	fs.Parse(args)
	r := rand.New(rand.NewSource(*seed))
	reg := strfmt.Default
	w := newChunkWriter(*out, 8000)
	defer w.close()
	distinct := map[string]struct{}{}
	var samples []interface{}
	var emit func(entry, op, kind, typ, format, xs, bs string, excl bool, outc string) error
	emit = func(entry, op, kind, typ, format, xs, bs string, excl bool, outc string) error {
		ev := enc.M{"ev": "num", "n": w.n + 1, "entry": entry, "op": op, "kind": kind, "type": typ, "format": format,
			"x": enc.NumFromDecimal(xs), "b": enc.NumFromDecimal(bs), "excl": excl, "out": outc}
		distinct[xs+"/"+bs+"/"+op+fmt.Sprint(excl)] = struct{}{}
		if len(samples) < 5 && w.n%4001 == 0 {
			samples = append(samples, enc.M{"entry": entry, "op": op, "kind": kind, "x": xs, "bound": bs, "exclusive": excl, "out": outc})
		}
		return w.write(ev, enc.M{"entry": entry, "op": op, "kind": kind, "type": typ, "format": format, "x": xs, "bound": bs, "exclusive": excl})
	}
	one := func(kind, xs, bs string) error {
		variant := kind
		if i := strings.IndexByte(kind, '/'); i >= 0 {
			kind = kind[:i]
		}
		x, ok := asKind(kind, xs)
		if !ok {
			return nil
		}
		x = wrapDefined(variant, x)
		br, _ := new(big.Rat).SetString(bs)
		b, bexact := br.Float64()
		// the constraint is the decimal written in the schema (<= 15 significant digits, or exactly a float64), carried by a float64
		if bsig := len(strings.TrimLeft(strings.ReplaceAll(strings.TrimPrefix(bs, "-"), ".", ""), "0")); (!bexact && bsig > 15) || math.Abs(b) > 1<<53 {
			return nil
		}
		xr, _ := new(big.Rat).SetString(xs)
		for _, op := range []string{"max", "min", "mult"} {
			if op == "mult" && br.Sign() <= 0 {
				continue
			}
			for _, excl := range []bool{false, true} {
				if op == "mult" && excl {
					continue
				}
				// the exported *NativeType helpers
				if kind != "jsonNumber" {
					var res string
					st := protect(func() string {
						switch op {
						case "max":
							res = okfail(validate.MaximumNativeType("p", "q", x, b, excl) == nil)
						case "min":
							res = okfail(validate.MinimumNativeType("p", "q", x, b, excl) == nil)
						default:
							res = okfail(validate.MultipleOfNativeType("p", "q", x, b) == nil)
						}
						return ""
					})
					if st != "" {
						res = "panic"
					}
					if err := emit("native", op, kind, "", "", xs, bs, excl, res); err != nil {
						return err
					}
				}
				// schema validation with typed data ({"maximum": b} - no declared type)
				sch := map[string]interface{}{}
				switch op {
				case "max":
					sch["maximum"] = json.Number(bs)
					if excl {
						sch["exclusiveMaximum"] = true
					}
				case "min":
					sch["minimum"] = json.Number(bs)
					if excl {
						sch["exclusiveMinimum"] = true
					}
				default:
					sch["multipleOf"] = json.Number(bs)
				}
				if kind == "jsonNumber" {
					sch["type"] = "number"
				}
				st, _ := json.Marshal(sch)
				res := protect(func() string {
					var s spec.Schema
					_ = json.Unmarshal(st, &s)
					return okfail(validate.AgainstSchema(&s, x, reg) == nil)
				})
				if strings.HasPrefix(res, "PANIC") {
					res = "panic"
				}
				if err := emit("schema", op, kind, "", "", xs, bs, excl, res); err != nil {
					return err
				}
				// parameter and header validators
				xf64, _ := xr.Float64()
				for _, tf := range typeFormatFor(kind, xr.IsInt(), math.Abs(xf64) < 1<<53) { // a float carries a JSON integer only below 2^53
					for _, entry := range []string{"param", "header"} {
						def := map[string]interface{}{"type": tf[0]}
						if tf[1] != "" {
							def["format"] = tf[1]
						}
						for k, v := range sch {
							if k != "type" {
								def[k] = v
							}
						}
						res := protect(func() string {
							if entry == "param" {
								def["name"], def["in"] = "p", "query"
								dt, _ := json.Marshal(def)
								var p spec.Parameter
								_ = json.Unmarshal(dt, &p)
								return okfail(validate.NewParamValidator(&p, reg).Validate(x).IsValid())
							}
							dt, _ := json.Marshal(def)
							var h spec.Header
							_ = json.Unmarshal(dt, &h)
							return okfail(validate.NewHeaderValidator("X", &h, reg).Validate(x).IsValid())
						})
						if strings.HasPrefix(res, "PANIC") {
							res = "panic"
						}
						if err := emit(entry, op, kind, tf[0], tf[1], xs, bs, excl, res); err != nil {
							return err
						}
					}
				}
				// typed helpers, where the bound is representable in the value's type
				if variant == kind && br.IsInt() && math.Abs(b) <= 1<<53 {
					var res string
					switch {
					case strings.HasPrefix(kind, "int"):
						xi, bi := int64(xr.Num().Int64()), int64(b)
						switch op {
						case "max":
							res = okfail(validate.MaximumInt("p", "q", xi, bi, excl) == nil)
						case "min":
							res = okfail(validate.MinimumInt("p", "q", xi, bi, excl) == nil)
						default:
							res = okfail(validate.MultipleOfInt("p", "q", xi, bi) == nil)
						}
					case strings.HasPrefix(kind, "uint") && b >= 0:
						xu, bu := xr.Num().Uint64(), uint64(b)
						switch op {
						case "max":
							res = okfail(validate.MaximumUint("p", "q", xu, bu, excl) == nil)
						case "min":
							res = okfail(validate.MinimumUint("p", "q", xu, bu, excl) == nil)
						default:
							res = okfail(validate.MultipleOfUint("p", "q", xu, bu) == nil)
						}
					}
					if res != "" {
						if err := emit("typed", op, kind, "", "", xs, bs, excl, res); err != nil {
							return err
						}
					}
				}
				if variant == "float64" {
					xf := x.(float64)
					var res string
					switch op {
					case "max":
						res = okfail(validate.Maximum("p", "q", xf, b, excl) == nil)
					case "min":
						res = okfail(validate.Minimum("p", "q", xf, b, excl) == nil)
					default:
						res = okfail(validate.MultipleOf("p", "q", xf, b) == nil)
					}
					if err := emit("typed", op, kind, "", "", xs, bs, excl, res); err != nil {
						return err
					}
				}
			}
		}
		return nil
	}
	switch *mode {
	case "witness":
		// each witness is exactly one event: the first one emitted for (kind, x, bound) matching entry/op/exclusive
		for _, f := range strings.Split(*witness, ",") {
			b, err := os.ReadFile(f)
			if err != nil {
				return err
			}
			var wf struct {
				Kind, X, Bound, Entry, Op, Type, Format string
				Exclusive                               bool
			}
			if err := json.Unmarshal(b, &wf); err != nil {
				return err
			}
			before := w.n
			tmp := emit
			emit = func(entry, op, kind, typ, format, xs, bs string, excl bool, outc string) error {
				if w.n > before || entry != wf.Entry || op != wf.Op || excl != wf.Exclusive || typ != wf.Type || format != wf.Format {
					return nil
				}
				return tmp(entry, op, kind, typ, format, xs, bs, excl, outc)
			}
			if err := one(wf.Kind, wf.X, wf.Bound); err != nil {
				return err
			}
			emit = tmp
			if w.n == before {
				return fmt.Errorf("witness %s produced no event", f)
			}
		}
	case "table":
		pairs := [][2]string{}
		for _, xs := range numTable {
			for _, bs := range numTable {
				pairs = append(pairs, [2]string{xs, bs})
			}
		}
		if *n > 0 && *n < len(pairs) {
			// the quick tier always keeps the boundary pairs (value = bound, a zero on either side, the 64-bit
			// extremes against small bounds) and samples the rest
			var keep, rest [][2]string
			for _, p := range pairs {
				big := len(p[0]) >= 18
				small := func(s string) bool { return len(strings.TrimPrefix(s, "-")) <= 2 && !strings.Contains(s, ".") }
				if p[0] == p[1] || p[0] == "-"+p[1] || p[0] == "0" || p[1] == "0" || (big && len(p[1]) <= 2) || (small(p[0]) && small(p[1])) {
					keep = append(keep, p)
				} else {
					rest = append(rest, p)
				}
			}
			r.Shuffle(len(rest), func(i, j int) { rest[i], rest[j] = rest[j], rest[i] })
			pairs = append(keep, rest[:*n]...)
		}
		for _, p := range pairs {
			for _, k := range numKinds {
				if err := one(k, p[0], p[1]); err != nil {
					return err
				}
			}
		}
	default:
		rdec := func(maxFrac int) string {
			// a random decimal with <= 15 significant digits, |x| <= 2^53
			digits := 1 + r.Intn(12)
			v := r.Int63n(int64(math.Pow10(digits)))
			frac := r.Intn(maxFrac + 1)
			if frac > digits {
				frac = digits
			}
			s := strconv.FormatInt(v, 10)
			for len(s) <= frac {
				s = "0" + s
			}
			if frac > 0 {
				s = s[:len(s)-frac] + "." + s[len(s)-frac:]
			}
			if r.Intn(3) == 0 && strings.Trim(s, "0.") != "" { // never "-0": a negative zero is not a number of the domain
				s = "-" + s
			}
			return s
		}
		for i := 0; i < *n; i++ {
			xs, bs := rdec(6), rdec(6)
			if r.Intn(3) == 0 { // make the value a multiple / a near-multiple of the bound more often
				bs = []string{"0.5", "2", "3", "0.1", "0.25", "7", "12.5", "0.01"}[r.Intn(8)]
			}
			if r.Intn(4) == 0 {
				xs = bs // equality: the inclusive / exclusive boundary
			}
			for _, k := range numKinds {
				if err := one(k, xs, bs); err != nil {
					return err
				}
			}
		}
	}
	w.close()
	return writeJSONFile(filepath.Join(*out, "meta.json"), map[string]interface{}{"events": w.n, "distinct_nontrivial": len(distinct), "samples": samples})
}
