"""Checks of the "schema" event family (C01, C06, C17, ...): events recorded from the real entry points are
evaluated by the TLA+ operators of spec/JsonSchema.tla through a trace specification."""
import json, os
from . import common
from .common import Inconclusive


def drive(vh, out, args, timeout=3600):
    common.run([vh, "drive-schema", "-out", out] + [str(a) for a in args], timeout=timeout)
    return json.load(open(os.path.join(out, "meta.json")))


def chunks(out):
    return sorted(os.path.join(out, d) for d in os.listdir(out) if d.startswith("chunk-"))


NO_DEVS = ("Trace_Api", "Trace_Pools", "Trace_RegexpCache", "Trace_Result", "Trace_Frame")


def cfg(open_devs, extra="", module=""):
    c = "SPECIFICATION Spec\nINVARIANT Done\nCHECK_DEADLOCK FALSE\n"
    if module not in NO_DEVS:
        c += "CONSTANT OpenDevs = %s\n" % common.tla_set(open_devs)
    return c + extra


def eval_chunk(chunk, module, open_devs, timeout=1800, extra=""):
    """Run the trace spec on one chunk; returns (tlc result, fails list)."""
    fails_path = os.path.join(chunk, "fails.ndjson")
    if os.path.exists(fails_path):
        os.remove(fails_path)
    r = common.tlc_or_inconclusive(chunk, module, cfg(open_devs, extra, module), timeout=timeout)
    n = sum(1 for _ in open(os.path.join(chunk, "events.ndjson")))
    if "TRACE-DONE" not in r["out"] or r["distinct"] != n + 1:
        raise Inconclusive("trace %s not fully consumed (%d states for %d events)\n%s" % (chunk, r["distinct"], n, r["out"][-2000:]))
    fails = common.read_ndjson(fails_path) if os.path.exists(fails_path) else []
    inputs = common.read_ndjson(os.path.join(chunk, "inputs.ndjson"))
    for f in fails:
        f["input"] = inputs[f["l"] - 1]
    return r, fails


def live_devs(check, vh, module, known_devs, extra="", driver="drive-schema", report=True):
    """A listed deviation is honoured only while its witness input still fails on the current tree."""
    if not known_devs:
        return {}
    wd = common.workdir("%s-witness" % check.prop)
    names = sorted(known_devs)
    common.run([vh, driver, "-out", wd, "-mode", "witness", "-witness", ",".join(known_devs[n]["witness"] for n in names)])
    r, fails = eval_chunk(chunks(wd)[0], module, names, extra=extra)
    check.add_tlc(r)
    live = {}
    for k, name in enumerate(names):
        if any(f["l"] == k + 1 for f in fails):
            live[name] = known_devs[name]
            if report:
                check.known(name, known_devs[name]["text"])    # the listed finding still reproduces on this tree
        else:
            common.log("[known] witness of %s no longer fails: deviation not honoured" % name)
    return live


def classify(check, fails, live):
    """Attribute every disagreement to a live known finding or report it as a violation."""
    seen = set()
    for f in fails:
        dev = f.get("dev", "")
        if dev == "combined":
            for name in live:
                check.known(name, live[name]["text"])
            continue
        if dev and dev in live:
            check.known(dev, live[dev]["text"])
            continue
        key = json.dumps(f["input"], sort_keys=True) + f["clause"]
        if key in seen:
            continue
        seen.add(key)
        check.violation(dict(family="schema", clause=f["clause"], expected=f.get("want"), got=f.get("got"), input=f["input"]),
                        "%s: spec says %s, code says %s" % (f["clause"], f.get("want"), f.get("got")))


def oracle_selfcheck(check, vh, module, live):
    """The oracle must agree with every label of the repository's draft-4 suite (validates the SPEC, not the code)."""
    wd = common.workdir("%s-suite" % check.prop)
    common.run([vh, "drive-suite", "-out", wd])
    meta = json.load(open(os.path.join(wd, "meta.json")))
    r, fails = eval_chunk(chunks(wd)[0], module, sorted(live))
    check.add_tlc(r)
    bad = [f for f in fails if f["clause"] == "suite-label"]
    if bad:
        raise Inconclusive("the TLA+ oracle disagrees with %d labelled suite instances, e.g. %s" % (len(bad), json.dumps(bad[0])[:600]))
    check.coverage["oracle_suite_labels_agreed"] = meta["events"]
    return [f for f in fails if f["clause"] != "suite-label"], meta


def run_traces(check, vh, name, cmd_args, module, devs, on_fail, timeout=7200, jobs=None):
    """Drive the real code (one harness run), validate every recorded chunk with TLC, hand fails to on_fail."""
    wd = common.workdir("%s-%s" % (check.prop, name))
    common.run([vh] + [str(a) for a in cmd_args] + ["-out", wd], timeout=timeout)
    meta = json.load(open(os.path.join(wd, "meta.json")))
    cks = chunks(wd)
    for r, fails in common.parallel(lambda c: eval_chunk(c, module, sorted(devs)), cks, jobs=jobs):
        check.add_tlc(r)
        on_fail(fails)
    check.coverage["evaluations"] += meta.get("runs", meta["events"])
    check.coverage["distinct_nontrivial"] += meta.get("distinct_nontrivial", 0)
    check.coverage["traces_validated_against_impl"] += len(cks)
    check.coverage["samples"] += meta.get("samples", [])[:2]
    return meta


def simple_violations(check, family):
    def on_fail(fails):
        seen = set()
        for f in fails:
            dev = f.get("dev", "")
            key = json.dumps(f["input"], sort_keys=True) + f["clause"]
            if key in seen:
                continue
            seen.add(key)
            check.violation(dict(family=family, clause=f["clause"], expected=f.get("want"), got=f.get("got"), input=f["input"]),
                            "%s: expected %s, got %s" % (f["clause"], f.get("want"), f.get("got")))
    return on_fail
