---------------------------- MODULE SwaggerRules ----------------------------
(***************************************************************************)
(* C03: the extra rules spec validation enforces on top of the Swagger 2.0  *)
(* schema (doc.go), over an ABSTRACT document:                              *)
(*   paths : <<[ph : placeholders of the template in order,                 *)
(*              emptyPh : the template contains "{}",                       *)
(*              stripped : the template with every placeholder replaced,    *)
(*              params : path-level parameters,                             *)
(*              ops : <<[method, id, params, responses]>>]>>                *)
(*   parameter : [name, loc, required, arrOK (an array declares items at    *)
(*                every nesting level; body: in its schema), patOK (its     *)
(*                patterns compile)]                                        *)
(*   response  : [arrOK (headers and schema), patOK]                        *)
(*   defs  : <<[name, required : <<[declared, patMatch, addl]>>,            *)
(*              parents : names reached through allOf $ref, props : own     *)
(*              property names, arrOK, patOK]>>                             *)
(*   refs  : names referenced anywhere;  names : what exists                *)
(* RulesOK(doc, strict) holds iff every documented rule holds.              *)
(***************************************************************************)
EXTENDS Integers, Sequences, FiniteSets

S(q) == {q[j] : j \in 1..Len(q)}
NoDup(q) == \A a, b \in 1..Len(q) : a # b => q[a] # q[b]

\* effective parameters of an operation: operation-level ones override path-level ones with the same (name, location)
Effective(p, op) ==
  LET own == S(op.params)
      inherited == {x \in S(p.params) : ~\E y \in own : y.name = x.name /\ y.loc = x.loc}
  IN own \cup inherited

AllOps(doc) == UNION {{[p |-> doc.paths[i], op |-> doc.paths[i].ops[j]] : j \in 1..Len(doc.paths[i].ops)} : i \in 1..Len(doc.paths)}
OpIds(doc) == [k \in 1..Cardinality(AllOps(doc)) |-> ""]   \* (unused)

\* (1) operation ids are unique over all operations (an empty id does not count)
R_UniqueOperationIds(doc) ==
  \A a, b \in AllOps(doc) : (a # b /\ a.op.id # "") => a.op.id # b.op.id
\* (2) path parameters: declared, required, matching the template one-to-one; placeholders unique and not empty
R_PathParams(doc) ==
  \A x \in AllOps(doc) :
    LET eff == Effective(x.p, x.op)
        pathParams == {q \in eff : q.loc = "path"} IN
    /\ ~x.p.emptyPh
    /\ NoDup(x.p.ph)
    /\ {q.name : q \in pathParams} = S(x.p.ph)
    /\ \A q \in pathParams : q.required
\* (3) unique (name, location) among the parameters an operation declares itself
R_UniqueParams(doc) ==
  \A x \in AllOps(doc) : \A a, b \in 1..Len(x.op.params) :
     (a # b /\ x.op.params[a].name # "") => ~(x.op.params[a].name = x.op.params[b].name /\ x.op.params[a].loc = x.op.params[b].loc)
\* (4) at most one body parameter, never together with form data
R_Body(doc) ==
  \A x \in AllOps(doc) : LET eff == Effective(x.p, x.op) IN
     /\ Cardinality({q \in eff : q.loc = "body"}) <= 1
     /\ ~((\E q \in eff : q.loc = "body") /\ (\E q \in eff : q.loc = "formData"))
\* (5) arrays declare items (parameters, nested items, headers, body / response / definition schemas)
R_ArraysHaveItems(doc) ==
  /\ \A x \in AllOps(doc) : (\A q \in Effective(x.p, x.op) : q.arrOK) /\ (\A j \in 1..Len(x.op.responses) : x.op.responses[j].arrOK)
  /\ \A j \in 1..Len(doc.defs) : doc.defs[j].arrOK
\* (6) every required name of a definition is defined: a declared property, a matching pattern property, or admitted by additionalProperties
R_RequiredDefined(doc) ==
  \A j \in 1..Len(doc.defs) : \A k \in 1..Len(doc.defs[j].required) :
     LET r == doc.defs[j].required[k] IN r.declared \/ r.patMatch \/ r.addl \in {"true", "schemaAdmits"}
\* (7) every reference resolves
R_RefsResolve(doc) == S(doc.refs) \subseteq S(doc.names)
\* (8) no property declared twice along an allOf ancestry, no circular ancestry
Def(doc, n) == doc.defs[CHOOSE j \in 1..Len(doc.defs) : doc.defs[j].name = n]
HasDef(doc, n) == \E j \in 1..Len(doc.defs) : doc.defs[j].name = n
RECURSIVE Ancestors(_, _, _)
Ancestors(doc, n, fuel) ==
  IF fuel = 0 \/ ~HasDef(doc, n) THEN {}
  ELSE LET ps == {p \in S(Def(doc, n).parents) : HasDef(doc, p)} IN ps \cup UNION {Ancestors(doc, p, fuel - 1) : p \in ps}
R_NoCircularAncestry(doc) == \A j \in 1..Len(doc.defs) : doc.defs[j].name \notin Ancestors(doc, doc.defs[j].name, Len(doc.defs) + 1)
\* property names along the ancestry, with multiplicity: a duplicate is a name contributed twice
RECURSIVE PropsBag(_, _, _)
PropsBag(doc, n, fuel) ==
  IF fuel = 0 \/ ~HasDef(doc, n) THEN <<>>
  ELSE LET d == Def(doc, n)
           RECURSIVE Cat(_)
           Cat(q) == IF q = <<>> THEN <<>> ELSE PropsBag(doc, Head(q), fuel - 1) \o Cat(Tail(q))
       IN Cat(d.parents) \o d.props
R_NoDuplicateInherited(doc) ==
  \A j \in 1..Len(doc.defs) : Len(doc.defs[j].parents) > 0 => NoDup(PropsBag(doc, doc.defs[j].name, Len(doc.defs) + 1))
\* (9) with StrictPathParamUniqueness: no two paths of one method are equal once placeholders are stripped
R_NoOverlap(doc) ==
  \A a, b \in AllOps(doc) : (a.p # b.p /\ a.op.method = b.op.method) => a.p.stripped # b.p.stripped
\* (10) every pattern compiles
R_Patterns(doc) ==
  /\ \A x \in AllOps(doc) : (\A q \in Effective(x.p, x.op) : q.patOK) /\ (\A j \in 1..Len(x.op.responses) : x.op.responses[j].patOK)
  /\ \A j \in 1..Len(doc.defs) : doc.defs[j].patOK

Broken(doc, strict) ==
  {r \in {"UniqueOperationIds", "PathParams", "UniqueParams", "Body", "ArraysHaveItems", "RequiredDefined", "RefsResolve", "NoCircularAncestry", "NoDuplicateInherited", "NoOverlap", "Patterns"} :
     CASE r = "UniqueOperationIds" -> ~R_UniqueOperationIds(doc)
       [] r = "PathParams" -> ~R_PathParams(doc)
       [] r = "UniqueParams" -> ~R_UniqueParams(doc)
       [] r = "Body" -> ~R_Body(doc)
       [] r = "ArraysHaveItems" -> ~R_ArraysHaveItems(doc)
       [] r = "RequiredDefined" -> ~R_RequiredDefined(doc)
       [] r = "RefsResolve" -> ~R_RefsResolve(doc)
       [] r = "NoCircularAncestry" -> ~R_NoCircularAncestry(doc)
       [] r = "NoDuplicateInherited" -> R_NoCircularAncestry(doc) /\ ~R_NoDuplicateInherited(doc)
       [] r = "NoOverlap" -> strict /\ ~R_NoOverlap(doc)
       [] r = "Patterns" -> ~R_Patterns(doc)}
RulesOK(doc, strict) == Broken(doc, strict) = {}
=============================================================================
