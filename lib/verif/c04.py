"""C04 - object recycling never changes an outcome, whatever came before."""
import itertools, json, os
from . import common, poolsfam

CLASSES = ["os-nilschema", "hv-recycle", "os-badnum", "os-branches", "sv-recycle-branches", "sv-recycle-typecheck", "sv-recycle-swagger", "sv-recycle-itemscheck", "os-skipschemata", "os-composite", "os-format", "os-invalid", "os-nil", "os-valid", "pv-recycle", "pv-recycle-invalid",
           "sv-recycle-badnum", "sv-recycle-invalid", "sv-recycle-nil", "sv-recycle-valid"]


def run(tier, seed):
    check = common.Check("C04", tier, seed, "model_checking")
    quick = tier == "quick"
    vh = common.build_vh()
    vhd = common.build_vh(tags=("verif", "validatedebug"))
    # 1. the life-cycle protocol, all behaviours within the bounds (every early exit, arbitrary sync.Pool behaviour)
    poolsfam.model(check, "1g-3calls", "g1", 3, panic=False)
    poolsfam.model(check, "2g-1call", "g1, g2", 1, panic=False)
    poolsfam.resultflow(check, 3 if quick else 5)
    if not quick:
        poolsfam.model(check, "1g-4calls-7obj", "g1", 4, panic=True, maxobj=7, timeout=7200)
    # 2. spec -> code: ALL call sequences of length <= 2 (quick) / <= 3 (thorough) over the schema-level call classes, enumerated by TLC (Gen_Api)
    wd = common.workdir("C04-genapi")
    L = 2 if quick else 3
    g = common.tlc_or_inconclusive(wd, "Gen_Api", "SPECIFICATION Spec\nINVARIANT Emit\nCONSTANTS\n  Classes = %s\n  MaxLen = %d\nCHECK_DEADLOCK FALSE\n" % (common.tla_set(CLASSES), L), timeout=1800)
    check.add_tlc(g)
    hist_file = os.path.join(wd, "histories.ndjson")
    # 3. long seeded histories mixing every class incl. whole-specification validation, on both builds, 1 and 4 OS threads
    n, ln = (10, 40) if quick else (60, 80)   # measured: 400 calls with whole-spec validations ~ 100 MB of pool events
    jobs = [
        (vh, "enumerated", ["-seed", seed, "-in", hist_file, "-spec=false"], False),
        (vhd, "enumerated-debugpools", ["-seed", seed, "-in", hist_file, "-spec=false"], True),
        (vh, "random", ["-seed", seed, "-n", n, "-len", ln], False),
        (vhd, "random-debugpools", ["-seed", seed + 1, "-n", n, "-len", ln], True),
        (vh, "random-4threads", ["-seed", seed + 2, "-n", n, "-len", ln, "-threads", 4], False),
        # without poisoning: redeemed objects keep their NATURAL stale content (poison would mask a change whose effect
        # depends on what a recycled object still holds, e.g. a clearing fast path keyed on empty lists)
        (vh, "enumerated-unpoisoned", ["-seed", seed, "-in", hist_file, "-spec=false", "-poison=false"], False),
        (vh, "random-unpoisoned", ["-seed", seed + 3, "-n", 3 * n, "-len", ln, "-spec=false", "-poison=false"], False),
    ]
    common.parallel_jobs(check, lambda j: poolsfam.histories(check, j[0], j[1], j[2], full=j[3]), jobs, jobs=len(jobs))
    check.coverage["rule"] = ("histories = sequences of calls over 21 classes (one-shot valid/invalid/nil data/failed json.Number conversion/composition/format; recycling schema, "
                              "parameter and header validators used once; whole-spec validation valid/invalid) + GC steps. enumerated: every sequence of length <= %d over the 19 schema-level "
                              "classes (TLC, Gen_Api). Each call's outcome (verdict, error set, warning set) must equal the outcome of the same call alone with nothing pooled (fresh mode); "
                              "redeemed objects are poisoned; the borrow/redeem stream of the production pools (redeem-only, borrow inferred) and of the debug pools (complete) is "
                              "validated by Trace_Pools.tla. non-trivial = distinct ordered pairs (previous class, class) executed." % L)
    check.assumptions = ["the alone/fresh reference is computed by the same code with the redeem hook dropping every object (nothing is ever pooled)",
                         "sync.Pool scheduling cannot be forced: reuse is maximised with GC off and one OS thread, and explored non-deterministically in the model"]
    return check.finish()
