----------------------------- MODULE Trace_Simple -----------------------------
(* C16 trace specification: one event = one typed Go value validated by a parameter or header validator. *)
EXTENDS Json, TLC, SimpleSchema
CONSTANT OpenDevs
Trace == ndJsonDeserialize("events.ndjson")
VARIABLES l, fails
vars == <<l, fails>>
V(b) == IF b THEN "valid" ELSE "invalid"
Known(ev) == {ev.known[j] : j \in 1..Len(ev.known)}
\* C13's finding: float multipleOf is computed with a relative tolerance (either verdict inside the region)
MultRegionS(x, f) ==
  /\ x.s # 0 /\ f.s = 1
  /\ LET sc == Max(x.f, f.f)
         X  == ScaledD(x, sc)
         F  == ScaledD(f, sc)
         R  == StripZ(RemD(X, F))
         R2 == IF R = <<>> THEN <<>> ELSE StripZ(SubD(F, R))
         m  == IF CmpD(R, R2) <= 0 THEN R ELSE R2
     IN \/ (R # <<>> /\ CmpD(m \o Zeros(8), X) < 0)
        \/ CmpD(X, F \o Zeros(15)) >= 0
        \/ (R = <<>> /\ (x.f > 0 \/ f.f > 0))              \* a true multiple with fractional operands: the float quotient may land just BELOW an integer, which the tolerance does not forgive
RECURSIVE Touches(_, _)
Touches(d, v) == \/ IsNum(v) /\ DHas(d, "multipleOf") /\ MultRegionS(v.num, d.multipleOf)
                 \/ v.k = "slice" /\ DHas(d, "items") /\ \E j \in 1..Len(v.e) : Touches(d.items, v.e[j])
ExplainS(ev, o) ==
  LET one == {d \in OpenDevs : V(SimpleValid({d}, Known(ev), ev.entry, 0, ev.def, ev.val)) = o} IN
  IF one # {} THEN CHOOSE d \in one : TRUE
  ELSE IF V(SimpleValid(OpenDevs, Known(ev), ev.entry, 0, ev.def, ev.val)) = o THEN "combined"
  ELSE IF "MultipleOfFloat" \in OpenDevs /\ Touches(ev.def, ev.val) THEN "MultipleOfFloat" ELSE ""
Check(ev, k) ==
  IF ev.val.k = "nil" THEN
     (IF ev.out \in {"nil", "valid"} THEN {} ELSE {[l |-> k, n |-> ev.n, clause |-> "a nil value is not validated", want |-> "nil", got |-> ev.out, dev |-> ""]})
  ELSE LET ideal == V(SimpleValid({}, Known(ev), ev.entry, 0, ev.def, ev.val)) IN
       (IF ev.out = ideal THEN {} ELSE {[l |-> k, n |-> ev.n, clause |-> ev.entry \o (IF ev.recycle THEN "(recycling)" ELSE ""), want |-> ideal, got |-> ev.out, dev |-> ExplainS(ev, ev.out)]})
Init == l = 1 /\ fails = {}
Next == /\ l <= Len(Trace)
        /\ l' = l + 1
        /\ fails' = fails \cup Check(Trace[l], l)
Spec == Init /\ [][Next]_vars
RECURSIVE SetToSeq(_)
SetToSeq(S) == IF S = {} THEN <<>> ELSE LET x == CHOOSE x \in S : TRUE IN <<x>> \o SetToSeq(S \ {x})
Done == l = Len(Trace) + 1 =>
          /\ ndJsonSerialize("fails.ndjson", SetToSeq(fails))
          /\ PrintT(<<"TRACE-DONE", Len(Trace), Cardinality(fails)>>)
=============================================================================
