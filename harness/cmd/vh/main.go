// Command vh is the Go side of the conformance harness: it generates inputs, drives the real
// go-openapi/validate entry points, and records what happened as tagged ND-JSON events that the
// TLA+ trace specifications in /verif/spec evaluate.
package main

import (
	"fmt"
	"os"
	"sort"
)

var commands = map[string]func(args []string) error{}

func main() {
	if len(os.Args) < 2 {
		usage()
	}
	cmd, ok := commands[os.Args[1]]
	if !ok {
		usage()
	}
	if err := cmd(os.Args[2:]); err != nil {
		fmt.Fprintln(os.Stderr, "vh:", err)
		os.Exit(2)
	}
}

func usage() {
	names := make([]string, 0, len(commands))
	for k := range commands {
		names = append(names, k)
	}
	sort.Strings(names)
	fmt.Fprintln(os.Stderr, "usage: vh <command> [flags]; commands:", names)
	os.Exit(2)
}
