-------------------------- MODULE Gen_RegexpCache --------------------------
(***************************************************************************)
(* Schedule generator (spec -> code): random behaviours of RegexpCache are  *)
(* written as ND-JSON (one line per step: goroutine, action, pattern, and   *)
(* the abstract state after it).  The Go harness replays each schedule on   *)
(* real goroutines parked at the verifGate hooks of rexp.go.                *)
(***************************************************************************)
EXTENDS RegexpCache, Sequences, Json
CONSTANT Depth
VARIABLE hist
SimInit == Init /\ hist = <<>>
StepRec(g, act) == [g |-> g, act |-> act, pat |-> req'[g], out |-> ret'[g].out,
                    cached |-> DOMAIN dict', holder |-> mu']
SimNext == /\ Len(hist) < Depth
           /\ \E g \in Gor :
                \/ \E p \in Pats : Call(g, p) /\ hist' = Append(hist, StepRec(g, "Call"))
                \/ Lookup(g)  /\ hist' = Append(hist, StepRec(g, "Lookup"))
                \/ Compile(g) /\ hist' = Append(hist, StepRec(g, "Compile"))
                \/ Lock(g)    /\ hist' = Append(hist, StepRec(g, "Lock"))
                \/ Reload(g)  /\ hist' = Append(hist, StepRec(g, "Reload"))
                \/ Store(g)   /\ hist' = Append(hist, StepRec(g, "Store"))
                \/ Unlock(g)  /\ hist' = Append(hist, StepRec(g, "Unlock"))
SimSpec == SimInit /\ [][SimNext]_<<vars, hist>>
\* a behaviour is emitted when it is complete (all requests issued and returned) or at the depth bound
Quiescent == \A g \in Gor : pc[g] = "idle" /\ nreq[g] = MaxReq
Emit == (Len(hist) = Depth \/ (Quiescent /\ Len(hist) > 0)) =>
          ndJsonSerialize("sched_" \o ToString(TLCGet("stats").traces) \o ".ndjson", hist)
=============================================================================
