package gen

import (
	"fmt"
	"math/rand"
	"regexp"
	"strings"
)

// Abstract Swagger documents for C03: built from well-formed parts, rendered to Swagger JSON for the real validator
// and encoded (Abstract) for SwaggerRules.tla.

type AParam struct {
	Name       string
	Loc        string // path | query | header | formData | body
	Required   bool
	Type       string // simple type, or "" for body
	ItemsDepth int    // array nesting depth (type array)
	NoItemsAt  int    // 0 = fine; k = the array at nesting level k (1 = the parameter itself) declares no items
	BodyArrBad bool   // body schema: an array without items
	BadPattern bool
	SchemaRef  string // body: referenced definition
	Desc       string // rendered as the description (two otherwise identical parameters stay distinct array elements)
}

type AResp struct {
	Code         string
	HeaderArrBad bool
	SchemaArrBad bool
	BadPattern   bool
	SchemaRef    string
	HasHeader    bool
}

type AOp struct {
	Method string
	ID     string
	Params []AParam
	Shared []string // names of shared parameters referenced with $ref
	Resps  []AResp
}

type APath struct {
	Template string
	Params   []AParam
	Ops      []AOp
}

type ADef struct {
	Name       string
	Props      []string
	Required   []string
	Parents    []string
	PatProps   []string
	AddProps   string   // none | true | false | schema
	AddSchema  []string // properties declared by the additionalProperties schema
	ArrBad     bool
	BadPattern bool
	AliasOf    string // the definition is nothing but a reference to another one
}

type ADoc struct {
	Paths        []APath
	Defs         []ADef
	SharedParams map[string]AParam
	ExtraRefs    []string // further $ref targets planted somewhere (dangling when not defined)
	Edits        []string
}

var phRe = regexp.MustCompile(`\{[^{}]*\}`)

// placeholders of a template, in order (own parser: a brace group without nested braces)
func Placeholders(t string) (names []string, empty bool) {
	for _, m := range phRe.FindAllString(t, -1) {
		n := m[1 : len(m)-1]
		if n == "" {
			empty = true
			continue
		}
		names = append(names, n)
	}
	return
}

func stripped(t string) string { return phRe.ReplaceAllString(t, "X") }

func (p AParam) render(defs bool) M {
	m := M{"name": p.Name, "in": p.Loc}
	if p.Required {
		m["required"] = true
	}
	if p.Desc != "" {
		m["description"] = p.Desc
	}
	if p.Loc == "body" {
		sch := M{"type": "object"}
		if p.SchemaRef != "" {
			sch = M{"$ref": "#/definitions/" + p.SchemaRef}
		}
		if p.BodyArrBad {
			sch = M{"type": "object", "properties": M{"list": M{"type": "array"}}}
			if p.SchemaRef == "top" {
				sch = M{"type": "array"}
			}
		}
		if p.BadPattern {
			sch = M{"type": "string", "pattern": "("}
		}
		m["schema"] = sch
		return m
	}
	if p.ItemsDepth > 0 {
		cur := m
		for k := 1; k <= p.ItemsDepth; k++ {
			cur["type"] = "array"
			if p.NoItemsAt == k {
				break
			}
			it := M{}
			cur["items"] = it
			cur = it
			if k == p.ItemsDepth {
				cur["type"] = "string"
				if p.BadPattern {
					cur["pattern"] = "[a-"
				}
			}
		}
		return m
	}
	m["type"] = p.Type
	if p.BadPattern {
		if p.Type == "" {
			m["type"] = "string"
		}
		m["pattern"] = "("
	}
	return m
}

func (p AParam) arrOK() bool {
	if p.Loc == "body" {
		return !p.BodyArrBad
	}
	return p.NoItemsAt == 0
}

// Render produces the Swagger 2.0 JSON document.
func (d *ADoc) Render() M {
	doc := M{"swagger": "2.0", "info": M{"title": "rules", "version": "1"}}
	paths := M{}
	for _, p := range d.Paths {
		pi := M{}
		if len(p.Params) > 0 {
			var ps []interface{}
			for _, q := range p.Params {
				ps = append(ps, q.render(true))
			}
			pi["parameters"] = ps
		}
		for _, op := range p.Ops {
			o := M{}
			if op.ID != "" {
				o["operationId"] = op.ID
			}
			var ps []interface{}
			for _, q := range op.Params {
				ps = append(ps, q.render(true))
			}
			for _, s := range op.Shared {
				ps = append(ps, M{"$ref": "#/parameters/" + s})
			}
			if ps != nil {
				o["parameters"] = ps
			}
			rs := M{}
			for _, r := range op.Resps {
				rm := M{"description": "d"}
				if r.SchemaRef != "" {
					rm["schema"] = M{"$ref": "#/definitions/" + r.SchemaRef}
				}
				if r.SchemaArrBad {
					rm["schema"] = M{"type": "array"}
				}
				if r.HasHeader || r.HeaderArrBad || r.BadPattern {
					h := M{"type": "string"}
					if r.HeaderArrBad {
						h = M{"type": "array"}
					} else if r.HasHeader {
						h = M{"type": "array", "items": M{"type": "string"}}
					}
					if r.BadPattern {
						h = M{"type": "string", "pattern": "*x"}
					}
					rm["headers"] = M{"X-H": h}
				}
				rs[r.Code] = rm
			}
			o["responses"] = rs
			pi[op.Method] = o
		}
		paths[p.Template] = pi
	}
	doc["paths"] = paths
	defs := M{}
	for _, df := range d.Defs {
		own := M{"type": "object"}
		props := M{}
		for _, pn := range df.Props {
			props[pn] = M{"type": "string"}
		}
		if df.ArrBad {
			props["badarr"] = M{"type": "array"}
		}
		if df.BadPattern {
			props["badpat"] = M{"type": "string", "pattern": "("}
		}
		if len(props) > 0 {
			own["properties"] = props
		}
		if len(df.Required) > 0 {
			var rq []interface{}
			for _, r := range df.Required {
				rq = append(rq, r)
			}
			own["required"] = rq
		}
		switch df.AddProps {
		case "true":
			own["additionalProperties"] = true
		case "false":
			own["additionalProperties"] = false
		case "schema":
			ap := M{"type": "object"}
			pr := M{}
			for _, pn := range df.AddSchema {
				pr[pn] = M{"type": "string"}
			}
			if len(pr) > 0 {
				ap["properties"] = pr
			}
			own["additionalProperties"] = ap
		}
		if df.AliasOf != "" {
			defs[df.Name] = M{"$ref": "#/definitions/" + df.AliasOf}
			continue
		}
		if len(df.Parents) > 0 {
			var all []interface{}
			for _, p := range df.Parents {
				all = append(all, M{"$ref": "#/definitions/" + p})
			}
			if len(props) > 0 || len(df.Required) > 0 || df.AddProps != "" {
				all = append(all, own) // a definition that only extends its parents has a single allOf member
			}
			defs[df.Name] = M{"allOf": all}
		} else {
			defs[df.Name] = own
		}
	}
	for i, r := range d.ExtraRefs {
		defs[fmt.Sprintf("Holder%d", i)] = M{"type": "object", "properties": M{"h": M{"$ref": "#/definitions/" + r}}}
	}
	if len(defs) > 0 {
		doc["definitions"] = defs
	}
	if len(d.SharedParams) > 0 {
		sp := M{}
		for k, p := range d.SharedParams {
			sp[k] = p.render(true)
		}
		doc["parameters"] = sp
	}
	return doc
}

// Abstract encodes the document for SwaggerRules.tla (ASCII only; names are plain identifiers).
func (d *ADoc) Abstract() M {
	encParam := func(p AParam) M {
		return M{"name": p.Name, "loc": p.Loc, "required": p.Required, "arrOK": p.arrOK(), "patOK": !p.BadPattern}
	}
	var paths []interface{}
	refs := []interface{}{}
	names := []interface{}{}
	for _, df := range d.Defs {
		names = append(names, "def:"+df.Name)
	}
	for i := range d.ExtraRefs {
		names = append(names, fmt.Sprintf("def:Holder%d", i))
	}
	for k := range d.SharedParams {
		names = append(names, "param:"+k)
	}
	for _, r := range d.ExtraRefs {
		refs = append(refs, "def:"+r)
	}
	for _, p := range d.Paths {
		ph, empty := Placeholders(p.Template)
		pp := []interface{}{}
		for _, q := range p.Params {
			pp = append(pp, encParam(q))
		}
		ops := []interface{}{}
		for _, op := range p.Ops {
			ps := []interface{}{}
			for _, q := range op.Params {
				ps = append(ps, encParam(q))
				if q.SchemaRef != "" && q.SchemaRef != "top" {
					refs = append(refs, "def:"+q.SchemaRef)
				}
			}
			for _, s := range op.Shared {
				refs = append(refs, "param:"+s)
				if sp, ok := d.SharedParams[s]; ok {
					ps = append(ps, encParam(sp))
				}
			}
			rs := []interface{}{}
			for _, r := range op.Resps {
				rs = append(rs, M{"arrOK": !r.HeaderArrBad && !r.SchemaArrBad, "patOK": !r.BadPattern})
				if r.SchemaRef != "" {
					refs = append(refs, "def:"+r.SchemaRef)
				}
			}
			ops = append(ops, M{"method": op.Method, "id": op.ID, "params": ps, "responses": rs})
		}
		phs := []interface{}{}
		for _, n := range ph {
			phs = append(phs, n)
		}
		paths = append(paths, M{"ph": phs, "emptyPh": empty, "stripped": stripped(p.Template), "template": p.Template, "params": pp, "ops": ops})
	}
	defs := []interface{}{}
	for _, df := range d.Defs {
		req := []interface{}{}
		for _, r := range df.Required {
			declared := false
			for _, pn := range df.Props {
				if pn == r {
					declared = true
				}
			}
			addl := df.AddProps
			if addl == "" {
				addl = "none"
			}
			if addl == "schema" {
				addl = "schemaRejects"
				for _, pn := range df.AddSchema {
					if pn == r {
						addl = "schemaAdmits"
					}
				}
			}
			req = append(req, M{"name": r, "declared": declared, "patMatch": false, "addl": addl})
		}
		parents := []interface{}{}
		for _, p := range df.Parents {
			parents = append(parents, p)
			refs = append(refs, "def:"+p)
		}
		if df.AliasOf != "" { // an alias stands for its target: everything is inherited through it
			parents = append(parents, df.AliasOf)
			refs = append(refs, "def:"+df.AliasOf)
		}
		props := []interface{}{}
		for _, pn := range df.Props {
			props = append(props, pn)
		}
		defs = append(defs, M{"name": df.Name, "required": req, "parents": parents, "props": props, "arrOK": !df.ArrBad, "patOK": !df.BadPattern})
	}
	return M{"paths": paths, "defs": defs, "refs": refs, "names": names}
}

var (
	ruleNames = []string{"id", "pid", "name", "tag", "q", "limit", "a", "b"}
	defNames  = []string{"Pet", "Err", "Base", "Node", "Leaf", "A", "B"}
	propNames = []string{"id", "name", "kind", "v", "w"}
)

// ValidDoc builds a random abstract document that satisfies every documented rule.
func ValidDoc(r *rand.Rand) *ADoc {
	d := &ADoc{SharedParams: map[string]AParam{}}
	nd := 2 + r.Intn(3)
	perm := r.Perm(len(defNames))
	for i := 0; i < nd; i++ {
		df := ADef{Name: defNames[perm[i]]}
		pp := r.Perm(len(propNames))
		for j := 0; j < 1+r.Intn(3); j++ {
			df.Props = append(df.Props, propNames[pp[j]])
		}
		if r.Intn(2) == 0 {
			df.Required = append(df.Required, df.Props[0])
		}
		switch r.Intn(5) {
		case 0:
			df.AddProps = "true"
			df.Required = append(df.Required, "anything")
		case 1:
			df.AddProps = "schema"
			df.AddSchema = []string{"extra"}
			df.Required = append(df.Required, "extra")
		case 2:
			df.AddProps = "false"
		}
		d.Defs = append(d.Defs, df)
	}
	// inheritance: a later definition may extend an earlier one, with disjoint own properties
	for i := 1; i < len(d.Defs); i++ {
		if r.Intn(2) == 0 {
			parent := d.Defs[r.Intn(i)]
			if len(parent.Parents) > 0 {
				continue
			}
			inherited := map[string]bool{}
			for _, pn := range parent.Props {
				inherited[pn] = true
			}
			var own []string
			for _, pn := range d.Defs[i].Props {
				if !inherited[pn] {
					own = append(own, pn)
				}
			}
			d.Defs[i].Props = own
			var req []string
			for _, rq := range d.Defs[i].Required {
				for _, pn := range own {
					if pn == rq {
						req = append(req, rq)
					}
				}
				if rq == "anything" || rq == "extra" {
					req = append(req, rq)
				}
			}
			d.Defs[i].Required = req
			d.Defs[i].Parents = []string{parent.Name}
		}
	}
	if r.Intn(2) == 0 {
		d.SharedParams["limit"] = AParam{Name: "limit", Loc: "query", Type: "integer"}
	}
	np := 1 + r.Intn(3)
	opn := 0
	tmpls := [][]string{{"/pets"}, {"/pets/{id}"}, {"/a/{a}/b/{b}"}, {"/files/{name}.json"}, {"/files/{name}.xml"}, {"/x{a}y"}, {"/r/{pid}/s"}, {"/z"}}
	tp := r.Perm(len(tmpls))
	for i := 0; i < np; i++ {
		p := APath{Template: tmpls[tp[i]][0]}
		ph, _ := Placeholders(p.Template)
		pathLevel := r.Intn(2) == 0
		if pathLevel {
			for _, n := range ph {
				p.Params = append(p.Params, AParam{Name: n, Loc: "path", Required: true, Type: "string"})
			}
		}
		methods := []string{"get", "post", "put", "delete"}
		mp := r.Perm(4)
		for j := 0; j < 1+r.Intn(2); j++ {
			opn++
			op := AOp{Method: methods[mp[j]], ID: fmt.Sprintf("op%d", opn)}
			if r.Intn(6) == 0 {
				op.ID = ""
			}
			if !pathLevel {
				for _, n := range ph {
					op.Params = append(op.Params, AParam{Name: n, Loc: "path", Required: true, Type: "string"})
				}
			}
			switch r.Intn(4) {
			case 0:
				op.Params = append(op.Params, AParam{Name: "body", Loc: "body", Required: true, SchemaRef: d.Defs[r.Intn(len(d.Defs))].Name})
			case 1:
				op.Params = append(op.Params, AParam{Name: "f", Loc: "formData", Type: "string"})
			case 2:
				op.Params = append(op.Params, AParam{Name: "tags", Loc: "query", ItemsDepth: 1 + r.Intn(2)})
			}
			if r.Intn(3) == 0 {
				op.Params = append(op.Params, AParam{Name: ruleNames[r.Intn(len(ruleNames))] + "Q", Loc: "header", Type: "integer"})
			}
			if _, ok := d.SharedParams["limit"]; ok && r.Intn(2) == 0 {
				op.Shared = append(op.Shared, "limit")
			}
			op.Resps = append(op.Resps, AResp{Code: "200", SchemaRef: d.Defs[r.Intn(len(d.Defs))].Name, HasHeader: r.Intn(3) == 0})
			if r.Intn(2) == 0 {
				op.Resps = append(op.Resps, AResp{Code: "default"})
			}
			p.Ops = append(p.Ops, op)
		}
		d.Paths = append(d.Paths, p)
	}
	return d
}

// RuleEdits are the rule-breaking ("!") and rule-preserving ("=") edits.
var RuleEdits = []string{
	"!DupOperationId", "!UndeclaredPlaceholder", "!ExtraPathParam", "!PathParamNotRequired", "!DupPlaceholder", "!EmptyPlaceholder", "!DupNameIn", "!SecondBody",
	"!BodyAndFormData", "!ArrayParamNoItems", "!NestedItemsNoItems", "!HeaderArrayNoItems", "!BodySchemaArrayNoItems", "!ResponseSchemaArrayNoItems", "!DefinitionArrayNoItems",
	"!RequiredUndefined", "!RequiredVsAdditionalFalse", "!RequiredNotInAdditionalSchema", "!DanglingRef", "!DupInheritedProperty", "!CircularAncestryDirect", "!CircularAncestryIndirect",
	"!OverlappingPaths", "!CircularAncestryBareRing", "!PathParamOnPlainPath", "!DupInheritedViaBareChild", "!BadPatternParam", "!BadPatternHeader", "!BadPatternSchema", "!BadPatternItems",
	"!SecondBodySameName", "!BadPatternNonStringParam", "!BadPatternSharedNonStringParam", "!UndeclaredLaterPlaceholder", "!DupInheritedViaAlias", "!DupInheritedViaAliasOfAlias", "!EmptyPlaceholderInMixedSegment",
	"=AddUnrelatedDefinition", "=RequiredViaAdditionalTrue", "=RequiredViaAdditionalSchema", "=MixedSegmentSiblings", "=MoveParamToPathLevel", "=SameParamNameOtherLocation", "=EmptyOperationIds",
}

// appendOnce keeps a list free of duplicates (an edit applied twice must stay rule-preserving: the Swagger schema wants
// unique required names)
func appendOnce(l []string, x string) []string {
	for _, y := range l {
		if y == x {
			return l
		}
	}
	return append(l, x)
}

// ApplyRuleEdit applies one edit; ok = false when it does not apply to this document.
func ApplyRuleEdit(d *ADoc, e string, r *rand.Rand) (ok bool) {
	if len(d.Paths) == 0 || len(d.Paths[0].Ops) == 0 || len(d.Defs) == 0 {
		return false
	}
	pi := r.Intn(len(d.Paths))
	p := &d.Paths[pi]
	oi := r.Intn(len(p.Ops))
	op := &p.Ops[oi]
	df := &d.Defs[r.Intn(len(d.Defs))]
	// the required-properties rule is stated for a definition's own required list: edits about it target plain definitions
	for tries := 0; tries < 8 && len(df.Parents) > 0; tries++ {
		df = &d.Defs[r.Intn(len(d.Defs))]
	}
	plain := len(df.Parents) == 0
	hasLoc := func(o *AOp, loc string) bool {
		for _, q := range o.Params {
			if q.Loc == loc {
				return true
			}
		}
		return false
	}
	switch e {
	case "!DupOperationId":
		var ids []*AOp
		for i := range d.Paths {
			for j := range d.Paths[i].Ops {
				if d.Paths[i].Ops[j].ID != "" {
					ids = append(ids, &d.Paths[i].Ops[j])
				}
			}
		}
		if len(ids) < 2 {
			return false
		}
		ids[1].ID = ids[0].ID
	case "!UndeclaredPlaceholder":
		// a placeholder with no path parameter: drop one at whichever level declares it
		for i := range d.Paths {
			ph, _ := Placeholders(d.Paths[i].Template)
			if len(ph) == 0 {
				continue
			}
			pp := &d.Paths[i]
			if len(pp.Params) > 0 {
				pp.Params = pp.Params[1:]
				return true
			}
			for j := range pp.Ops {
				for k, q := range pp.Ops[j].Params {
					if q.Loc == "path" {
						pp.Ops[j].Params = append(append([]AParam{}, pp.Ops[j].Params[:k]...), pp.Ops[j].Params[k+1:]...)
						return true
					}
				}
			}
		}
		return false
	case "!UndeclaredLaterPlaceholder":
		// several placeholders, the first ones declared, a later one not
		d.Paths = append(d.Paths, APath{Template: "/multi/{first}/x/{second}/y/{third}", Ops: []AOp{{Method: "get", ID: "multiOp",
			Params: []AParam{{Name: "first", Loc: "path", Required: true, Type: "string"}, {Name: "second", Loc: "path", Required: true, Type: "string"}}, Resps: []AResp{{Code: "200"}}}}})
	case "!DupInheritedViaAlias":
		d.Defs = append(d.Defs, ADef{Name: "AB1", Props: []string{"shared"}}, ADef{Name: "AL1", AliasOf: "AB1"}, ADef{Name: "AC1", Props: []string{"shared", "z"}, Parents: []string{"AL1"}})
	case "!DupInheritedViaAliasOfAlias":
		d.Defs = append(d.Defs, ADef{Name: "AB2", Props: []string{"shared"}}, ADef{Name: "AL2", AliasOf: "AB2"}, ADef{Name: "AL3", AliasOf: "AL2"}, ADef{Name: "AC2", Props: []string{"w", "shared"}, Parents: []string{"AL3"}})
	case "!ExtraPathParam":
		op.Params = append(op.Params, AParam{Name: "ghost", Loc: "path", Required: true, Type: "string"})
	case "!PathParamNotRequired":
		for i := range d.Paths {
			for k := range d.Paths[i].Params {
				d.Paths[i].Params[k].Required = false
				return true
			}
			for j := range d.Paths[i].Ops {
				for k := range d.Paths[i].Ops[j].Params {
					if d.Paths[i].Ops[j].Params[k].Loc == "path" {
						d.Paths[i].Ops[j].Params[k].Required = false
						return true
					}
				}
			}
		}
		return false
	case "!DupPlaceholder":
		for i := range d.Paths {
			ph, _ := Placeholders(d.Paths[i].Template)
			if len(ph) > 0 {
				d.Paths[i].Template += "/again/{" + ph[0] + "}"
				return true
			}
		}
		return false
	case "!EmptyPlaceholder":
		p.Template += "/e/{}"
	case "!EmptyPlaceholderInMixedSegment":
		p.Template += []string{"/e/{}.json", "/e/id-{}", "/photo-{}/raw"}[r.Intn(3)]
	case "!DupNameIn":
		op.Params = append(op.Params, AParam{Name: "dup", Loc: "query", Type: "string"}, AParam{Name: "dup", Loc: "query", Type: "integer"})
	case "!SecondBody":
		if hasLoc(op, "formData") {
			return false
		}
		if !hasLoc(op, "body") {
			op.Params = append(op.Params, AParam{Name: "b1", Loc: "body", SchemaRef: d.Defs[0].Name})
		}
		op.Params = append(op.Params, AParam{Name: "b2", Loc: "body", SchemaRef: d.Defs[0].Name})
	case "!SecondBodySameName":
		// two body parameters that only differ by their description: one (name, location) pair, two body parameters
		if hasLoc(op, "formData") || hasLoc(op, "body") {
			return false
		}
		op.Params = append(op.Params, AParam{Name: "twin", Loc: "body", SchemaRef: d.Defs[0].Name}, AParam{Name: "twin", Loc: "body", SchemaRef: d.Defs[0].Name, Desc: "again"})
	case "!BodyAndFormData":
		if !hasLoc(op, "body") {
			op.Params = append(op.Params, AParam{Name: "b1", Loc: "body", SchemaRef: d.Defs[0].Name})
		}
		if !hasLoc(op, "formData") {
			op.Params = append(op.Params, AParam{Name: "ff", Loc: "formData", Type: "string"})
		}
	case "!ArrayParamNoItems":
		op.Params = append(op.Params, AParam{Name: "arr", Loc: "query", ItemsDepth: 1, NoItemsAt: 1})
	case "!NestedItemsNoItems":
		op.Params = append(op.Params, AParam{Name: "arr2", Loc: "query", ItemsDepth: 2 + r.Intn(2), NoItemsAt: 2})
	case "!HeaderArrayNoItems":
		op.Resps[0].HeaderArrBad = true
	case "!BodySchemaArrayNoItems":
		if hasLoc(op, "body") || hasLoc(op, "formData") {
			return false
		}
		ref := ""
		if r.Intn(2) == 0 {
			ref = "top"
		}
		op.Params = append(op.Params, AParam{Name: "bb", Loc: "body", BodyArrBad: true, SchemaRef: ref})
	case "!ResponseSchemaArrayNoItems":
		op.Resps[0].SchemaArrBad = true
		op.Resps[0].SchemaRef = ""
	case "!DefinitionArrayNoItems":
		df.ArrBad = true
	case "!RequiredUndefined":
		if !plain {
			return false
		}
		if df.AddProps == "true" {
			return false
		}
		df.Required = appendOnce(df.Required, "nowhere")
	case "!RequiredVsAdditionalFalse":
		if !plain {
			return false
		}
		df.AddProps = "false"
		df.Required = appendOnce(df.Required, "nowhere")
	case "!RequiredNotInAdditionalSchema":
		if !plain {
			return false
		}
		df.AddProps = "schema"
		df.AddSchema = []string{"extra"}
		df.Required = appendOnce(df.Required, "nowhere")
	case "!DanglingRef":
		d.ExtraRefs = append(d.ExtraRefs, "Ghost")
	case "!DupInheritedProperty":
		base := ADef{Name: "DupBase", Props: []string{"shared", "x"}}
		child := ADef{Name: "DupChild", Props: []string{"shared", "y"}, Parents: []string{"DupBase"}}
		d.Defs = append(d.Defs, base, child)
		op.Resps[0].SchemaRef = "DupChild"
	case "!CircularAncestryDirect":
		d.Defs = append(d.Defs, ADef{Name: "Loop", Props: []string{"l"}, Parents: []string{"Loop"}})
	case "!CircularAncestryIndirect":
		d.Defs = append(d.Defs, ADef{Name: "LoopA", Props: []string{"la"}, Parents: []string{"LoopB"}}, ADef{Name: "LoopB", Props: []string{"lb"}, Parents: []string{"LoopA"}})
	case "!CircularAncestryBareRing":
		// a ring in which every definition ONLY extends the next one (single-member allOf)
		d.Defs = append(d.Defs, ADef{Name: "RingA", Parents: []string{"RingB"}}, ADef{Name: "RingB", Parents: []string{"RingC"}}, ADef{Name: "RingC", Parents: []string{"RingA"}})
	case "!PathParamOnPlainPath":
		d.Paths = append(d.Paths, APath{Template: "/plain/path", Ops: []AOp{{Method: "get", ID: "plainOp", Params: []AParam{{Name: "ghost", Loc: "path", Required: true, Type: "string"}}, Resps: []AResp{{Code: "200"}}}}})
	case "!DupInheritedViaBareChild":
		d.Defs = append(d.Defs, ADef{Name: "G1", Props: []string{"shared"}}, ADef{Name: "G2", Props: []string{"shared", "z"}, Parents: []string{"G1"}}, ADef{Name: "G3", Parents: []string{"G2"}})
	case "!OverlappingPaths":
		d.Paths = append(d.Paths,
			APath{Template: "/ov/{one}", Ops: []AOp{{Method: "get", ID: "ov1", Params: []AParam{{Name: "one", Loc: "path", Required: true, Type: "string"}}, Resps: []AResp{{Code: "200"}}}}},
			APath{Template: "/ov/{two}", Ops: []AOp{{Method: "get", ID: "ov2", Params: []AParam{{Name: "two", Loc: "path", Required: true, Type: "string"}}, Resps: []AResp{{Code: "200"}}}}})
	case "!BadPatternParam":
		op.Params = append(op.Params, AParam{Name: "pat", Loc: "query", BadPattern: true})
	case "!BadPatternNonStringParam":
		op.Params = append(op.Params, AParam{Name: "patn", Loc: []string{"query", "header"}[r.Intn(2)], Type: []string{"integer", "number", "boolean"}[r.Intn(3)], BadPattern: true})
	case "!BadPatternSharedNonStringParam":
		if d.SharedParams == nil {
			d.SharedParams = map[string]AParam{}
		}
		d.SharedParams["patshared"] = AParam{Name: "patshared", Loc: "query", Type: "integer", BadPattern: true}
		op.Shared = append(op.Shared, "patshared")
	case "!BadPatternItems":
		op.Params = append(op.Params, AParam{Name: "pati", Loc: "query", ItemsDepth: 1, BadPattern: true})
	case "!BadPatternHeader":
		op.Resps[0].BadPattern = true
	case "!BadPatternSchema":
		df.BadPattern = true
	case "=AddUnrelatedDefinition":
		d.Defs = append(d.Defs, ADef{Name: "Unrelated", Props: []string{"u"}, Required: []string{"u"}})
	case "=RequiredViaAdditionalTrue":
		if !plain {
			return false
		}
		df.AddProps = "true"
		df.Required = appendOnce(df.Required, "whatever")
	case "=RequiredViaAdditionalSchema":
		if !plain {
			return false
		}
		df.AddProps = "schema"
		df.AddSchema = []string{"extra", "more"}
		df.Required = appendOnce(df.Required, "more")
	case "=MixedSegmentSiblings":
		mk := func(t, id string) APath {
			return APath{Template: t, Ops: []AOp{{Method: "get", ID: id, Params: []AParam{{Name: "doc", Loc: "path", Required: true, Type: "string"}}, Resps: []AResp{{Code: "200"}}}}}
		}
		d.Paths = append(d.Paths, mk("/docs/{doc}.json", "mixJ"), mk("/docs/{doc}.xml", "mixX"))
	case "=MoveParamToPathLevel":
		if len(p.Params) > 0 {
			return false
		}
		var moved, rest []AParam
		for _, q := range op.Params {
			if q.Loc == "path" {
				moved = append(moved, q)
			} else {
				rest = append(rest, q)
			}
		}
		if len(moved) == 0 || len(p.Ops) != 1 {
			return false
		}
		op.Params = rest
		p.Params = moved
	case "=SameParamNameOtherLocation":
		op.Params = append(op.Params, AParam{Name: "same", Loc: "query", Type: "string"}, AParam{Name: "same", Loc: "header", Type: "string"})
	case "=EmptyOperationIds":
		for i := range d.Paths {
			for j := range d.Paths[i].Ops {
				d.Paths[i].Ops[j].ID = ""
			}
		}
	default:
		return false
	}
	d.Edits = append(d.Edits, e)
	return true
}

// HasKeywordName tells whether a member of definitions / parameters is named like a schema keyword the Swagger-specific
// checks look for ("items").
func (d *ADoc) HasKeywordName() bool {
	for _, df := range d.Defs {
		if df.Name == "items" || strings.EqualFold(df.Name, "items") {
			return true
		}
	}
	return false
}
