SPECIFICATION Spec
CONSTANTS
  RIds = {"r1", "r2"}
  Msgs = {"a", "b"}
  Nil = "nil"
  MaxMC = 3
CONSTRAINT Bounded
INVARIANTS NoDupMsgs ValidIffNoErrors
PROPERTIES PrefixPreserved MergeIsAdditive FrameAdd AddIsOrderedUnion
VIEW View
CHECK_DEADLOCK FALSE
