----------------------------- MODULE ResultInd -----------------------------
(***************************************************************************)
(* Typed restatement of the accumulator part of Result.tla for Apalache     *)
(* (C20, design level): "no message is ever duplicated and nil is never     *)
(* stored" is an INDUCTIVE invariant of AddErrors / AddWarnings / Merge /   *)
(* MergeAsErrors / MergeAsWarnings over two results - for histories of any  *)
(* length, not only within TLC's bound.                                     *)
(*   apalache-mc check --init=Init    --inv=IndInv --length=0 ResultInd.tla  *)
(*   apalache-mc check --init=IndInit --inv=IndInv --length=1 ResultInd.tla  *)
(***************************************************************************)
EXTENDS Integers, Sequences, Apalache

Msgs == {"a", "b", "c"}
Nil == "nil"
RIds == {"r1", "r2"}

VARIABLES
  \* @type: Str -> Seq(Str);
  errs,
  \* @type: Str -> Seq(Str);
  warns

\* @type: (Seq(Str), Str) => Bool;
InSeq(q, m) == \E j \in DOMAIN q : q[j] = m
\* @type: (Seq(Str), Str) => Seq(Str);
AddU(q, m) == IF m = Nil \/ InSeq(q, m) THEN q ELSE Append(q, m)
\* @type: (Seq(Str), Seq(Str)) => Seq(Str);
AddAll(q, ms) == ApaFoldSeqLeft(AddU, q, ms)

\* @type: Seq(Str) => Bool;
NoDupSeq(q) == \A i, j \in DOMAIN q : i # j => q[i] # q[j]
\* @type: Seq(Str) => Bool;
Clean(q) == NoDupSeq(q) /\ \A i \in DOMAIN q : q[i] \in Msgs

Init == errs = [r \in RIds |-> <<>>] /\ warns = [r \in RIds |-> <<>>]

\* arguments: any list of at most 3 messages or nils
\* @type: Seq(Str) => Bool;
IsArgList(ms) == Len(ms) <= 3 /\ \A i \in DOMAIN ms : ms[i] \in Msgs \cup {Nil}

AddErrors(r) == \E ms \in {Gen(3)} : IsArgList(ms) /\ errs' = [errs EXCEPT ![r] = AddAll(@, ms)] /\ UNCHANGED warns
AddWarnings(r) == \E ms \in {Gen(3)} : IsArgList(ms) /\ warns' = [warns EXCEPT ![r] = AddAll(@, ms)] /\ UNCHANGED errs
\* the three updates of one merge operand, in the order of the code (self-merge allowed: o may be r)
Merge(r, o) == /\ errs' = [errs EXCEPT ![r] = AddAll(@, errs[o])]
               /\ warns' = [warns EXCEPT ![r] = AddAll(@, warns[o])]
MergeAsErrors(r, o) == LET e1 == AddAll(errs[r], errs[o]) IN
                       /\ errs' = [errs EXCEPT ![r] = AddAll(e1, warns[o])]
                       /\ UNCHANGED warns
MergeAsWarnings(r, o) == LET w1 == AddAll(warns[r], errs[o]) IN
                         /\ warns' = [warns EXCEPT ![r] = AddAll(w1, IF o = r THEN w1 ELSE warns[o])]
                         /\ UNCHANGED errs
Next == \E r \in RIds :
          \/ AddErrors(r) \/ AddWarnings(r)
          \/ \E o \in RIds : Merge(r, o) \/ MergeAsErrors(r, o) \/ MergeAsWarnings(r, o)

IndInv == \A r \in RIds : Clean(errs[r]) /\ Clean(warns[r])
\* any two results whose lists hold at most three entries drawn from Msgs
IndInit == /\ errs = Gen(3) /\ warns = Gen(3)
           /\ DOMAIN errs = RIds /\ DOMAIN warns = RIds
           /\ IndInv
=============================================================================
