"""bin/verif replay <file>: re-execute a replay file against the current tree and print both outcomes (exit 1 while they differ)."""
import importlib, json, os, subprocess, sys
from . import common, schemafam


def run(path):
    rep = json.load(open(path))
    prop, fam = rep.get("property", "?"), rep.get("family", "")
    print("replay of %s (family %s): %s" % (prop, fam, rep.get("what", "")))
    vh = common.build_vh()
    if fam in ("schema", "errors", "post") and isinstance(rep.get("input"), dict) and "schema" in rep["input"]:
        # pure (schema, instance) families: one event through the real entry points, evaluated by the TLA+ oracle
        wd = common.workdir("replay")
        wf = os.path.join(wd, "case.json")
        json.dump(dict(family="schema", schema=rep["input"]["schema"], inst=rep["input"].get("inst")), open(wf, "w"))
        out = os.path.join(wd, "run")
        common.run([vh, "drive-schema", "-out", out, "-mode", "witness", "-witness", wf])
        known = common.Known().devs("C01")
        r, fails = schemafam.eval_chunk(schemafam.chunks(out)[0], "Trace_Schema", sorted(known))
        ev = common.read_ndjson(os.path.join(schemafam.chunks(out)[0], "events.ndjson"))[0]
        print("  code: one-shot = %s, validator object = %s" % (ev["o1"], ev["o2"]))
        for f in fails:
            print("  spec: %s expects %s (deviation that explains the code: %s)" % (f["clause"], f["want"], f["dev"] or "none"))
        if not fails:
            print("  spec and code agree on the verdict")
        bad = [f for f in fails if not f["dev"]]
        if prop not in ("C01",) and not bad:
            print("  (the verdict part agrees; for %s re-run: VERIF_SEED=%s bin/verif check %s %s)" % (prop, rep.get("seed", 1), prop, rep.get("tier", "quick")))
        return 1 if bad else 0
    # stateful / document families: the checks are seeded, re-run the check that produced the file
    print("  re-running the check with the recorded seed and tier")
    env = dict(os.environ, VERIF_SEED=str(rep.get("seed", 1)))
    p = subprocess.run([os.path.join(common.ROOT, "bin", "verif"), "check", prop, rep.get("tier", "quick")], env=env)
    return p.returncode
