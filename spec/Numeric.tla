------------------------------- MODULE Numeric -------------------------------
(***************************************************************************)
(* C13: numeric verdicts depend on the number, not on the Go type that      *)
(* carries it.  minimum / maximum (inclusive or exclusive) and multipleOf   *)
(* are defined by exact arithmetic on the mathematical values (BigDec); the *)
(* verdict is independent of the carrying kind and of the entry point.      *)
(*                                                                          *)
(* Named deviations (what the implementation is KNOWN to do, see            *)
(* KNOWN-FINDINGS.txt):                                                     *)
(*  IntBoundTruncation: on the native comparison path, integer kinds        *)
(*     convert the float64 bound / factor with int64(b) / uint64(b), i.e.   *)
(*     truncate it toward zero before comparing (a factor truncated to 0    *)
(*     is reported as "must be positive").                                  *)
(*  BoundOutsideDeclaredFormat: a parameter / header / items validator      *)
(*     whose bound is not representable in the DECLARED type and format     *)
(*     (e.g. type integer with minimum 2.5, format uint64 with minimum -1)  *)
(*     reports the ill-typed bound as a validation error, whatever the      *)
(*     value.                                                               *)
(*  MultipleOfFloat: float carriers compute x/f in float64 and accept a     *)
(*     relative error of 1e-9 (JsonSchema!MultRegion).                      *)
(***************************************************************************)
EXTENDS Integers, Sequences, FiniteSets, BigDec

IntKinds  == {"int", "int8", "int16", "int32", "int64"}
UintKinds == {"uint", "uint8", "uint16", "uint32", "uint64"}
FloatKinds == {"float32", "float64", "jsonNumber"}

\* truncation toward zero
Trunc(b) == IF b.f = 0 THEN b
            ELSE LET d == SubSeq(b.d, 1, Len(b.d) - b.f) IN
                 IF Len(b.d) <= b.f \/ d = <<>> THEN [s |-> 0, d |-> <<>>, f |-> 0] ELSE [s |-> b.s, d |-> d, f |-> 0]

MaxOK(x, b, excl) == IF excl THEN Lt(x, b) ELSE Le(x, b)
MinOK(x, b, excl) == IF excl THEN Lt(b, x) ELSE Le(b, x)
MultOK(x, f) == IsPos(f) /\ IsMultiple(x, f)

Ideal(op, x, b, excl) ==
  CASE op = "max"  -> MaxOK(x, b, excl)
    [] op = "min"  -> MinOK(x, b, excl)
    [] op = "mult" -> MultOK(x, b)

\* does the call compare natively (value's own kind) rather than in float64?  Parameter / header / items
\* validators first check that the bound is representable in the declared type and format
\* (IsValueValidAgainstRange) and fall back to the float64 comparison when it is not.
Pow2(n) == CASE n = 31 -> [s |-> 1, d |-> <<2,1,4,7,4,8,3,6,4,8>>, f |-> 0]
             [] n = 32 -> [s |-> 1, d |-> <<4,2,9,4,9,6,7,2,9,6>>, f |-> 0]
             [] n = 63 -> [s |-> 1, d |-> <<9,2,2,3,3,7,2,0,3,6,8,5,4,7,7,5,8,0,8>>, f |-> 0]
             [] n = 64 -> [s |-> 1, d |-> <<1,8,4,4,6,7,4,4,0,7,3,7,0,9,5,5,1,6,1,6>>, f |-> 0]
InIntRange(b, fmt) ==
  /\ IsInt(b)
  /\ CASE fmt = "int32"  -> Le(Neg(Pow2(31)), b) /\ Lt(b, Pow2(31))
       [] fmt = "uint32" -> b.s >= 0 /\ Lt(b, Pow2(32))
       [] fmt = "uint64" -> b.s >= 0 /\ Lt(b, Pow2(64))
       [] OTHER          -> Le(Neg(Pow2(63)), b) /\ Lt(b, Pow2(63))
NativePath(entry, typ, fmt, b) ==
  \/ entry \in {"native", "schema"}
  \/ entry \in {"param", "header", "items"} /\ (IF typ = "integer" THEN InIntRange(b, fmt) ELSE TRUE)

\* the verdict of the implementation under a set of deviations; "either" when both verdicts are tolerated
Expected(dev, ev) ==
  LET x == ev.x  b == ev.b
      intk == ev.kind \in IntKinds \cup UintKinds
      trunc == "IntBoundTruncation" \in dev /\ intk /\ NativePath(ev.entry, ev.type, ev.format, b) /\ ~IsInt(b)
      bb == IF trunc THEN Trunc(b) ELSE b
  IN IF "BoundOutsideDeclaredFormat" \in dev /\ ev.entry \in {"param", "header", "items"} /\ ev.type = "integer" /\ ~InIntRange(b, ev.format) THEN "fail"
     ELSE IF ev.op = "mult" /\ trunc /\ ~IsPos(bb) THEN "fail"
     ELSE IF Ideal(ev.op, x, bb, ev.excl) THEN "ok" ELSE "fail"
=============================================================================
