package main

import (
	"context"
	"encoding/json"
	"flag"
	"fmt"
	"math/rand"
	"os"
	"path/filepath"
	"runtime"
	"sort"
	"strings"
	"sync"

	"github.com/go-openapi/spec"
	"github.com/go-openapi/strfmt"
	"github.com/go-openapi/validate"

	"verifharness/internal/enc"
	"verifharness/internal/gen"
	"verifharness/internal/hook"
)

func init() { commands["run-concurrent"] = runConcurrent }

// sharedSpec describes a long-lived validator (no recycling, schema without $ref) that all goroutines of a round share.
// The shared object is built afresh for every round, right before the goroutines start, and is never used before
// them: a validator that initialises something lazily on first use is then first used concurrently.
type sharedSpec struct {
	schema []byte
	opts   []validate.Option
	root   string
	insts  [][]byte
	refs   []string
	v      *validate.SchemaValidator // the round's shared instance
}

func (sp *sharedSpec) build() *validate.SchemaValidator {
	var sch spec.Schema
	_ = json.Unmarshal(sp.schema, &sch)
	return validate.NewSchemaValidator(&sch, nil, sp.root, strfmt.Default, sp.opts...)
}

func sharedSpecs(seed int64, rec *hook.Recorder, want int) []*sharedSpec {
	r := rand.New(rand.NewSource(seed + 4242))
	var out []*sharedSpec
	finish := func(sp *sharedSpec) {
		ref := sp.build() // a private instance computes the alone outcomes
		for _, it := range sp.insts {
			it := it
			c := &call{run: func(strfmt.Registry) string {
				data, _ := decodeFloat(it)
				res := ref.Validate(data)
				return outcomeOf(res.Errors, res.Warnings)
			}}
			sp.refs = append(sp.refs, alone(rec, c, strfmt.Default))
		}
		out = append(out, sp)
	}
	// validators built with the Swagger options, fed schema-like objects (keys "type", "items", "properties")
	for i, st := range []string{
		`{"type":"object","properties":{"type":{"type":"string"},"items":{"type":"object"},"properties":{"type":"object"}}}`,
		`{"type":"object","additionalProperties":true,"required":["type"]}`,
		`{"properties":{"default":{"properties":{"items":{}}},"example":{}}}`,
	} {
		sp := &sharedSpec{schema: []byte(st), root: []string{"", "definitions.x", "a.properties"}[i%3],
			opts: [][]validate.Option{{validate.SwaggerSchema(true)}, {validate.EnableObjectArrayTypeCheck(true)}, {validate.EnableArrayMustHaveItemsCheck(true)}}[i%3]}
		for _, it := range []string{`{"type":"array","items":{"type":"string"}}`, `{"items":{}}`, `{"type":"array"}`, `{"type":"string","properties":{"a":1}}`, `{"default":{"items":[1]},"type":"object"}`} {
			sp.insts = append(sp.insts, []byte(it))
		}
		finish(sp)
	}
	for len(out) < want {
		s := gen.RSchema(r, 3, &gen.SchemaOpts{Format: true})
		st, _ := json.Marshal(s)
		var sch spec.Schema
		if json.Unmarshal(st, &sch) != nil {
			continue
		}
		sp := &sharedSpec{schema: st}
		for j := 0; j < 3; j++ {
			it, _ := json.Marshal(gen.InstFor(r, s, nil, 4, 0.2))
			sp.insts = append(sp.insts, it)
		}
		finish(sp)
		bad := false
		for _, ref := range sp.refs {
			if strings.HasPrefix(ref, "PANIC") {
				bad = true
			}
		}
		if bad {
			out = out[:len(out)-1]
		}
	}
	return out
}

func helperCalls(seed int64) []*call {
	r := rand.New(rand.NewSource(seed + 99))
	var out []*call
	errStr := func(e error) string {
		if e == nil {
			return "nil"
		}
		return e.Error()
	}
	strs := []string{"", "a", "ab", "é", "日本", "xa", "2020-01-01"}
	pats := []string{"^a", "b$", "(", "é", "^.$", "[a-", "x{2}"}
	for i := 0; i < 60; i++ {
		s, p := strs[r.Intn(len(strs))], pats[r.Intn(len(pats))]
		n := int64(r.Intn(4))
		k := r.Intn(8)
		c := &call{Class: "helper", Desc: fmt.Sprintf("helper %d %q %q %d", k, s, p, n)}
		c.run = func(strfmt.Registry) string {
			switch k {
			case 0:
				return "Pattern " + errStrV(validate.Pattern("p", "q", s, p))
			case 1:
				return "MinLength " + errStrV(validate.MinLength("p", "q", s, n))
			case 2:
				return "MaxLength " + errStrV(validate.MaxLength("p", "q", s, n))
			case 3:
				return "Enum " + errStrV(validate.Enum("p", "q", s, []interface{}{"a", "ab", 1.0}))
			case 4:
				return "UniqueItems " + errStrV(validate.UniqueItems("p", "q", []interface{}{s, "a", n}))
			case 5:
				return "FormatOf " + errStrV(validate.FormatOf("p", "q", "date", s, strfmt.Default))
			case 6:
				return "Required " + errStrV(validate.Required("p", "q", s))
			default:
				return "ReadOnly " + errStrV(validate.ReadOnly(validate.WithOperationRequest(context.Background()), "p", "q", s))
			}
		}
		c.Ref = c.run(nil)
		_ = errStr
		out = append(out, c)
	}
	return out
}

func errStrV(e interface{ Error() string }) string {
	if e == nil || fmt.Sprintf("%v", e) == "<nil>" {
		return "nil"
	}
	return e.Error()
}

// runConcurrent: g goroutines, each issuing its own seeded call sequence; every outcome is compared with the
// call's alone/fresh reference; pool events are recorded with tickets taken at the hook sites.
func runConcurrent(args []string) error {
	fs := flag.NewFlagSet("run-concurrent", flag.ExitOnError)
	seed := fs.Int64("seed", 1, "seed")
	gs := fs.String("g", "8", "comma separated goroutine counts, one round each")
	n := fs.Int("n", 40, "calls per goroutine")
	out := fs.String("out", "", "output directory")
	record := fs.Bool("record", true, "record pool events (off in the race build: the detector is the observer)")
	specEvery := fs.Int("spec-every", 25, "one call in N is a whole-specification validation")
	full := fs.Bool("full", false, "validatedebug build")
	procs := fs.Int("procs", 0, "GOMAXPROCS (0 = all)")
	poison := fs.Bool("poison", true, "scribble over redeemed objects")
	fs.Parse(args)
	if *procs > 0 {
		runtime.GOMAXPROCS(*procs)
	}
	rec := hook.NewRecorder()
	rec.Empty = enc.PtrOf(validate.VerifEmptyResult())
	validate.VerifOnRedeem = rec.OnRedeem
	validate.VerifOnBorrow = rec.OnBorrow
	rec.Register(1)
	cat := buildCatalogue(*seed, rec, 6, true)
	delete(cat, "os-badref")
	shared := sharedSpecs(*seed, rec, 12)
	helpers := helperCalls(*seed)
	var schemaClasses []string
	for k := range cat {
		if !strings.HasPrefix(k, "spec-") {
			schemaClasses = append(schemaClasses, k)
		}
	}
	sort.Strings(schemaClasses)
	specCalls := append(append([]*call{}, cat["spec-valid"]...), cat["spec-invalid"]...)
	if err := os.MkdirAll(*out, 0o755); err != nil {
		return err
	}
	w := newChunkWriter(*out, 0)
	defer w.close()
	var mismatches []interface{}
	var mmMu sync.Mutex
	total := 0
	distinct := map[string]struct{}{}
	var samples []interface{}
	for round, gstr := range strings.Split(*gs, ",") {
		ng := 8
		fmt.Sscanf(gstr, "%d", &ng)
		validate.VerifResetPools()
		hook.Forget()
		rec.Drain()
		if *poison {
			rec.SetMode("poison")
		} else {
			rec.SetMode("plain")
		}
		rec.Recording(*record)
		rec.Mark(hook.PoolEvent{Kind: "reset", G: 1})
		for _, sp := range shared {
			sp.v = sp.build() // fresh shared instances, first used by the goroutines
		}
		var wg sync.WaitGroup
		start := make(chan struct{})
		counts := make([]int, ng)
		for g := 0; g < ng; g++ {
			wg.Add(1)
			gr := rand.New(rand.NewSource(*seed*1000 + int64(round)*100 + int64(g)))
			go func(g int) {
				defer wg.Done()
				rec.Register(g + 1)
				<-start
				// each goroutine favours its own classes, so that outcomes differ between goroutines
				fav := schemaClasses[g%len(schemaClasses)]
				for k := 0; k < *n; k++ {
					var c *call
					switch x := gr.Intn(100); {
					case *specEvery > 0 && k%*specEvery == *specEvery-1:
						c = specCalls[(g+k)%len(specCalls)]
					case k < len(shared) || x < 15:
						// every goroutine starts with one call on every shared validator (concurrent FIRST uses)
						sp := shared[gr.Intn(len(shared))]
						if k < len(shared) {
							sp = shared[(k+g)%len(shared)]
						}
						j := gr.Intn(len(sp.insts))
						v, it := sp.v, sp.insts[j]
						c = &call{Class: "shared-validator", Desc: "shared " + string(sp.schema) + " <- " + string(it), Ref: sp.refs[j]}
						c.run = func(strfmt.Registry) string {
							data, _ := decodeFloat(it)
							res := v.Validate(data)
							return outcomeOf(res.Errors, res.Warnings)
						}
					case x < 30:
						c = helpers[gr.Intn(len(helpers))]
					case (x < 38 && x >= 33) || (k >= len(shared) && k < len(shared)+4):
						// (every goroutine's first calls after the shared validators are first uses of patterns too: a burst of cache misses)
						// a pattern nobody has used before (valid or invalid): concurrent FIRST uses go through the cache insert paths
						pat := fmt.Sprintf("^r%dg%dk%d[a-z]", round, g, k)
						if gr.Intn(2) == 0 {
							pat = fmt.Sprintf("(r%dg%dk%d", round, g, k)
						}
						str := fmt.Sprintf("r%dg%dk%dz", round, g, k)
						want := "Pattern nil"
						if rexpFact(pat, str) != "match" {
							want = "Pattern error"
						}
						c = &call{Class: "fresh-pattern", Desc: "Pattern " + pat, Ref: want}
						c.run = func(strfmt.Registry) string {
							if validate.Pattern("p", "q", str, pat) == nil {
								return "Pattern nil"
							}
							return "Pattern error"
						}
					case x < 33:
						validate.SetContinueOnErrors(gr.Intn(2) == 0) // package-level setter, concurrently with NewSpecValidator
						continue
					case x < 60:
						cl := cat[fav]
						c = cl[gr.Intn(len(cl))]
					default:
						cl := cat[schemaClasses[gr.Intn(len(schemaClasses))]]
						c = cl[gr.Intn(len(cl))]
					}
					rec.Mark(hook.PoolEvent{Kind: "call", G: g + 1, Call: k, Class: c.Class})
					got := protect(func() string { return c.run(strfmt.Default) })
					rec.Mark(hook.PoolEvent{Kind: "ret", G: g + 1, Call: k, Class: c.Class, Out: digest(got), Ref: digest(c.Ref)})
					counts[g]++
					if got != c.Ref {
						mmMu.Lock()
						if len(mismatches) < 20 {
							mismatches = append(mismatches, enc.M{"round": round, "goroutines": ng, "g": g + 1, "k": k, "class": c.Class, "call": c.Desc, "got": got, "alone": c.Ref})
						}
						mmMu.Unlock()
					}
				}
			}(g)
		}
		close(start)
		wg.Wait()
		validate.SetContinueOnErrors(false)
		rec.Recording(false)
		for _, c := range counts {
			total += c
		}
		distinct[fmt.Sprintf("round%d-g%d", round, ng)] = struct{}{}
		evs := rec.Drain()
		if *record {
			w.open()
			for _, e := range evs {
				if err := w.write(poolEventJSON(e), enc.M{"round": round, "goroutines": ng}); err != nil {
					return err
				}
			}
		}
		if len(samples) < 2 {
			samples = append(samples, enc.M{"goroutines": ng, "calls_per_goroutine": *n, "events": len(evs)})
		}
	}
	w.close()
	return writeJSONFile(filepath.Join(*out, "meta.json"), map[string]interface{}{
		"events": w.n, "calls": total, "histories": len(distinct), "distinct_nontrivial": total, "samples": samples, "mismatches": mismatches, "full": *full,
		"redeems": rec.Redeems.Load(),
	})
}
