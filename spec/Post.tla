-------------------------------- MODULE Post --------------------------------
(***************************************************************************)
(* C18 / C19: post-processing of a validation result (post.ApplyDefaults,   *)
(* post.Prune).                                                             *)
(*                                                                          *)
(* "Applicable" schemas of a value: the schema itself, every allOf member,  *)
(* ONE valid alternative of each anyOf / oneOf (any valid one may be "the   *)
(* selected alternative"), references resolved.  A SELECTION is a set of    *)
(* plain schemas obtained that way; Selections is the set of all of them.   *)
(* Both statements are existential over selections, so the acceptable       *)
(* results form a set: Defaulted / Pruned are predicates "v2 is an          *)
(* acceptable result for v".                                                *)
(***************************************************************************)
EXTENDS JsonSchema, TLC

Resolve(root, s) == IF Has(s, "ref") THEN Deref(root, s.ref) ELSE s

\* {A \cup B : A \in X, B \in Y}
Cross(X, Y) == {a \cup b : a \in X, b \in Y}
RECURSIVE CrossAll(_)
CrossAll(q) == IF q = <<>> THEN {{}} ELSE Cross(Head(q), CrossAll(Tail(q)))

RECURSIVE Selections(_, _, _, _)
Selections(root, known, s0, v) ==
  LET s == Resolve(root, s0)
      all == IF Has(s, "allOf") THEN CrossAll([j \in 1..Len(s.allOf) |-> Selections(root, known, s.allOf[j], v)]) ELSE {{}}
      any == IF Has(s, "anyOf")
             THEN LET ok == {j \in 1..Len(s.anyOf) : Valid(root, known, {}, s.anyOf[j], v)} IN
                  IF ok = {} THEN {{}} ELSE UNION {Selections(root, known, s.anyOf[j], v) : j \in ok}
             ELSE {{}}
      one == IF Has(s, "oneOf")
             THEN LET ok == {j \in 1..Len(s.oneOf) : Valid(root, known, {}, s.oneOf[j], v)} IN
                  IF ok = {} THEN {{}} ELSE UNION {Selections(root, known, s.oneOf[j], v) : j \in ok}
             ELSE {{}}
  IN Cross(Cross({{s}}, all), Cross(any, one))

\* selections for a value to which a SET of schemas applies
SelectionsOfSet(root, known, S, v) ==
  IF S = {} THEN {{}} ELSE
  LET RECURSIVE Go(_)
      Go(T) == IF T = {} THEN {{}} ELSE LET t == CHOOSE t \in T : TRUE IN Cross(Selections(root, known, t, v), Go(T \ {t}))
  IN Go(S)

\* schemas of a selection T that concern member key (name kx, pattern ids m) / element j
PropSchemas(T, kx) == {t.pv[CHOOSE j \in 1..Len(t.pk) : t.pk[j] = kx] : t \in {u \in T : Has(u, "pk") /\ InSeq(kx, u.pk)}}
PatSchemas(T, key) == UNION {{t.ppv[j] : j \in {q \in 1..Len(t.ppk) : InSeq(t.ppk[q], key.m)}} : t \in {u \in T : Has(u, "ppk")}}
AddSchemas(T, key) == {t.addPropsS : t \in {u \in T : Has(u, "addPropsS")
                                               /\ ~(Has(u, "pk") /\ InSeq(key.x, u.pk))
                                               /\ ~(Has(u, "ppk") /\ \E q \in 1..Len(u.ppk) : InSeq(u.ppk[q], key.m))}}
ElemSchemas(T, j) == {t.items : t \in {u \in T : Has(u, "items")}}
                     \cup {t.tuple[j] : t \in {u \in T : Has(u, "tuple") /\ j <= Len(u.tuple)}}
                     \cup {t.addItemsS : t \in {u \in T : Has(u, "tuple") /\ j > Len(u.tuple) /\ Has(u, "addItemsS")}}
MemberSchemas(T, key) == PropSchemas(T, key.x) \cup PatSchemas(T, key) \cup AddSchemas(T, key)

\* names of declared properties with a (direct) default, and those defaults
DeclaredProps(T) == UNION {SeqToSet(t.pk) : t \in {u \in T : Has(u, "pk")}}
DefaultsFor(root, T, kx) == {p.default : p \in {q \in PropSchemas(T, kx) : Has(q, "default")}}
\* tolerated sources (the weaker reading): a default found behind a reference or an allOf of the property schema
RECURSIVE DeepDefaults(_, _, _)
DeepDefaults(root, p0, fuel) ==
  LET p == Resolve(root, p0) IN
  (IF Has(p, "default") THEN {p.default} ELSE {}) \cup
  (IF fuel > 0 /\ Has(p, "allOf") THEN UNION {DeepDefaults(root, p.allOf[j], fuel - 1) : j \in 1..Len(p.allOf)} ELSE {})
MayDefaultsFor(root, T, kx) == UNION {DeepDefaults(root, p, 3) : p \in PropSchemas(T, kx)}

InSet(x, S) == \E y \in S : JsonEq(x, y)

(***************************************************************************)
(* C18.  v2 is an acceptable result of applying defaults to v under the     *)
(* schema set S: members that were present keep their value (objects and    *)
(* array elements inside them are defaulted recursively), every absent      *)
(* member with an applicable default holds one of the applicable defaults,  *)
(* no other member appears.                                                 *)
(***************************************************************************)
RECURSIVE Defaulted(_, _, _, _, _)
Defaulted(root, known, S, v, v2) ==
  IF v.t # v2.t THEN FALSE
  ELSE IF v.t = "obj" THEN
    \E T \in SelectionsOfSet(root, known, S, v) :
      /\ \A m \in 1..Len(v.k) : HasKey(v2, v.k[m].x)
                                /\ Defaulted(root, known, MemberSchemas(T, v.k[m]), v.v[m], v2.v[KeyIndex(v2, v.k[m].x)])
      /\ \A m \in 1..Len(v2.k) : ~HasKey(v, v2.k[m].x) =>
            InSet(v2.v[m], DefaultsFor(root, T, v2.k[m].x) \cup MayDefaultsFor(root, T, v2.k[m].x))
      /\ \A kx \in DeclaredProps(T) : (~HasKey(v, kx) /\ DefaultsFor(root, T, kx) # {}) => HasKey(v2, kx)
  ELSE IF v.t = "arr" THEN
    /\ Len(v.v) = Len(v2.v)
    /\ \E T \in SelectionsOfSet(root, known, S, v) :
         \A j \in 1..Len(v.v) : Defaulted(root, known, ElemSchemas(T, j), v.v[j], v2.v[j])
  ELSE JsonEq(v, v2)

(***************************************************************************)
(* C19.  v2 is an acceptable result of pruning v under the schema set S: a  *)
(* member remains exactly when some applicable schema describes it (a       *)
(* declared property, a matching pattern property, a schema-valued          *)
(* additionalProperties), recursively; remaining members are unchanged.     *)
(***************************************************************************)
RECURSIVE Pruned(_, _, _, _, _)
Pruned(root, known, S, v, v2) ==
  IF v.t # v2.t THEN FALSE
  ELSE IF v.t = "obj" THEN
    \E T \in SelectionsOfSet(root, known, S, v) :
      /\ \A m \in 1..Len(v2.k) : HasKey(v, v2.k[m].x)                                   \* nothing appears
      /\ \A m \in 1..Len(v.k) :
           LET described == MemberSchemas(T, v.k[m]) # {} IN
           IF described THEN HasKey(v2, v.k[m].x) /\ Pruned(root, known, MemberSchemas(T, v.k[m]), v.v[m], v2.v[KeyIndex(v2, v.k[m].x)])
           ELSE ~HasKey(v2, v.k[m].x)
  ELSE IF v.t = "arr" THEN
    /\ Len(v.v) = Len(v2.v)
    /\ \E T \in SelectionsOfSet(root, known, S, v) :
         \A j \in 1..Len(v.v) : Pruned(root, known, ElemSchemas(T, j), v.v[j], v2.v[j])
  ELSE JsonEq(v, v2)

UsesAlternatives(root) == \E s \in RootSchemas(root) : Has(s, "anyOf") \/ Has(s, "oneOf")
=============================================================================
