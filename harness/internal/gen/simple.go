package gen

import (
	"encoding/json"
	"math/rand"
)

// SimpleDef returns a random Swagger "simple schema" (the constraint vocabulary shared by non-body parameters,
// headers and items) in generic JSON form, with items nested up to depth d.
func SimpleDef(r *rand.Rand, d int) M {
	p := func(x float64) bool { return r.Float64() < x }
	s := M{}
	t := []string{"string", "number", "integer", "boolean", "array"}[r.Intn(5)]
	if d <= 0 && t == "array" {
		t = "string"
	}
	s["type"] = t
	switch t {
	case "string":
		if p(0.25) {
			s["format"] = []string{"date", "email", "uuid", "date-time"}[r.Intn(4)]
		}
		if p(0.3) {
			s["maxLength"] = 1 + r.Intn(4)
		}
		if p(0.2) {
			s["minLength"] = r.Intn(3)
		}
		if p(0.25) {
			s["pattern"] = Pats[r.Intn(len(Pats))]
		}
		if p(0.2) {
			s["enum"] = []interface{}{Strs[r.Intn(len(Strs))], Strs[r.Intn(len(Strs))]}
		}
	case "number", "integer":
		if p(0.3) {
			if t == "integer" {
				s["format"] = []string{"int32", "int64"}[r.Intn(2)]
			} else {
				s["format"] = []string{"float", "double"}[r.Intn(2)]
			}
		}
		if p(0.4) {
			s["maximum"] = json.Number([]string{"3", "10", "100", "2.5"}[r.Intn(4)])
			if p(0.3) {
				s["exclusiveMaximum"] = true
			}
		}
		if p(0.3) {
			s["minimum"] = json.Number([]string{"0", "1", "-5", "1.5"}[r.Intn(4)])
			if p(0.3) {
				s["exclusiveMinimum"] = true
			}
		}
		if p(0.2) {
			s["multipleOf"] = json.Number([]string{"2", "5", "0.5"}[r.Intn(3)])
		}
		if p(0.2) {
			// members of several magnitudes and with fractions: not all representable in every carrying kind
			s["enum"] = [][]interface{}{
				{json.Number("1"), json.Number("2"), json.Number("7")},
				{json.Number("1.5"), json.Number("2.5")},
				{json.Number("300"), json.Number("400")},
				{json.Number("-1"), json.Number("70000"), json.Number("4294967296")},
			}[r.Intn(4)]
		}
	case "array":
		s["items"] = SimpleDef(r, d-1)
		if p(0.3) {
			s["maxItems"] = 1 + r.Intn(3)
		}
		if p(0.2) {
			s["minItems"] = r.Intn(3)
		}
		if p(0.25) {
			s["uniqueItems"] = true
		}
		if p(0.3) {
			s["collectionFormat"] = "csv"
		}
	}
	return s
}

// SimpleValue returns a JSON-ish Go value (float64 / string / bool / []interface{}) for a simple definition,
// conforming with probability 1-wrong at each node.
func SimpleValue(r *rand.Rand, s M, wrong float64) interface{} {
	if r.Float64() < wrong {
		switch r.Intn(4) {
		case 0:
			return Strs[r.Intn(len(Strs))]
		case 1:
			return float64(r.Intn(200) - 20)
		case 2:
			return r.Intn(2) == 0
		default:
			return []interface{}{float64(r.Intn(5)), "a"}
		}
	}
	switch s["type"] {
	case "string":
		if e, ok := s["enum"].([]interface{}); ok && r.Intn(2) == 0 {
			return e[r.Intn(len(e))]
		}
		if f, ok := s["format"].(string); ok && r.Intn(3) > 0 {
			switch f {
			case "date":
				return "2020-01-01"
			case "email":
				return "a@b.co"
			case "uuid":
				return "a8098c1a-f86e-11da-bd1a-00112444be1e"
			case "date-time":
				return "2020-01-01T10:00:00Z"
			}
		}
		return Strs[r.Intn(len(Strs))]
	case "number":
		return []float64{0, 1, 1.5, 2, 2.5, 3, 5, 10, 100, -5, 7, 101}[r.Intn(12)]
	case "integer":
		return []float64{0, 1, 2, 3, 4, 5, 10, 100, -5, 7, 101, 2.5}[r.Intn(12)]
	case "boolean":
		return r.Intn(2) == 0
	case "array":
		it, _ := s["items"].(map[string]interface{})
		n := r.Intn(4)
		out := make([]interface{}, n)
		for i := range out {
			out[i] = SimpleValue(r, it, wrong)
		}
		return out
	}
	return nil
}
