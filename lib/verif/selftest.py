"""bin/verif selftest: demonstrate that the trace specifications are bound to what was recorded - corrupt ONE recorded
field of an accepted trace of each family and require the monitor to reject exactly that event (not part of any verdict)."""
import json, os, shutil
from . import common, schemafam

C20_CFG = 'SPECIFICATION TraceSpec\nINVARIANTS Done\nCHECK_DEADLOCK FALSE\nCONSTANTS\n  RIds = {"r1", "r2", "r3", "r4", "r5"}\n  Msgs = {"m1", "m2", "m3", "m4", "m5", "m6", "b1", "b2", "b3", "b4", "b5", "b6", "b7", "b8", "b9", "b10", "b11", "b12", "b13", "b14", "b15", "b16", "b17", "b18", "b19", "b20"}\n  Nil = "nil"\n'


def corrupt(chunk, pick, mutate):
    """Copy chunk, mutate the first event selected by pick; returns (dir, line number)."""
    dst = chunk.rstrip("/") + "-corrupted"
    shutil.rmtree(dst, ignore_errors=True)
    os.makedirs(dst)
    evs = common.read_ndjson(os.path.join(chunk, "events.ndjson"))
    shutil.copyfile(os.path.join(chunk, "inputs.ndjson"), os.path.join(dst, "inputs.ndjson"))
    line = None
    for i, e in enumerate(evs):
        if pick(e):
            r = mutate(e)
            if isinstance(r, list):
                evs[i:i + 1] = r
            line = i + 1
            break
    with open(os.path.join(dst, "events.ndjson"), "w") as f:
        for e in evs:
            f.write(json.dumps(e) + "\n")
    if len(evs) != len(common.read_ndjson(os.path.join(dst, "inputs.ndjson"))):
        inp = common.read_ndjson(os.path.join(dst, "inputs.ndjson"))
        inp = (inp + [inp[-1]] * len(evs))[:len(evs)]
        with open(os.path.join(dst, "inputs.ndjson"), "w") as f:
            for e in inp:
                f.write(json.dumps(e) + "\n")
    return dst, line


def run():
    vh = common.build_vh()
    vhd = common.build_vh(tags=("verif", "validatedebug"))
    ok = True

    def expect(name, chunk, module, devs, line, cfgtext=None):
        nonlocal ok
        if cfgtext:
            r = common.tlc_or_inconclusive(chunk, module, cfgtext)
            fails = common.read_ndjson(os.path.join(chunk, "fails.ndjson"))
        else:
            r, fails = schemafam.eval_chunk(chunk, module, devs)
        hit = [f for f in fails if f["l"] in (line, line + 1)]
        print("%-34s corrupted event at line %s -> %s" % (name, line, "REJECTED (%s)" % str(hit[0].get("clause"))[:70] if hit else "ACCEPTED: the monitor is blind"))
        ok = ok and bool(hit)

    # schema family: flip a verdict
    wd = common.workdir("selftest-schema")
    common.run([vh, "drive-schema", "-mode", "random", "-n", "50", "-out", wd])
    c, line = corrupt(schemafam.chunks(wd)[0], lambda e: e["o1"] == "valid" and e["o2"] == "valid", lambda e: e.update(o1="invalid", o2="invalid"))
    expect("Trace_Schema (flip a verdict)", c, "Trace_Schema", ["NullEarlyExit", "EnumNull", "FormatSkipsType", "MultipleOfFloat"], line)
    # result family: drop a message from a recorded state
    wd = common.workdir("selftest-result")
    common.run([vh, "drive-result", "-n", "5", "-out", wd])
    c, line = corrupt(schemafam.chunks(wd)[0], lambda e: any(len(s["errs"]) > 1 for s in e.get("state", {}).values()),
                      lambda e: [s for s in e["state"].values() if len(s["errs"]) > 1][0]["errs"].pop())
    expect("Trace_Result (lose a message)", c, "Trace_Result", [], line, C20_CFG)
    # pools family (complete stream of the debug pools): duplicate a redeem event
    wd = common.workdir("selftest-pools")
    common.run([vhd, "run-history", "-n", "3", "-len", "10", "-spec=false", "-full", "-out", wd])
    c, line = corrupt(schemafam.chunks(wd)[0], lambda e: e["ev"] == "R" and e["p"] == "results", lambda e: [e, dict(e)])
    expect("Trace_Pools (double redeem)", c, "Trace_Pools", [], line, "SPECIFICATION Spec\nINVARIANT Done\nCHECK_DEADLOCK FALSE\nCONSTANT FullStream = TRUE\n")
    c, line = corrupt(schemafam.chunks(wd)[0], lambda e: e["ev"] == "ret", lambda e: e.update(out="deadbeef"))
    expect("Trace_Pools (outcome differs)", c, "Trace_Pools", [], line, "SPECIFICATION Spec\nINVARIANT Done\nCHECK_DEADLOCK FALSE\nCONSTANT FullStream = TRUE\n")
    # regexp family: flip an answer
    wd = common.workdir("selftest-rexp")
    common.run([vh, "drive-rexp", "-n", "20", "-rounds", "1", "-out", wd])
    c, line = corrupt(schemafam.chunks(wd)[0], lambda e: e.get("out") == "match", lambda e: e.update(out="error"))
    expect("Trace_RegexpCache (flip an answer)", c, "Trace_RegexpCache", [], line, "SPECIFICATION Spec\nINVARIANT Done\nCHECK_DEADLOCK FALSE\n")
    # numeric family
    wd = common.workdir("selftest-num")
    common.run([vh, "drive-numeric", "-mode", "random", "-n", "3", "-out", wd])
    c, line = corrupt(schemafam.chunks(wd)[0], lambda e: e["out"] == "ok" and e["entry"] == "typed", lambda e: e.update(out="fail"))
    expect("Trace_Numeric (flip a verdict)", c, "Trace_Numeric", ["IntBoundTruncation", "MultipleOfFloat", "BoundOutsideDeclaredFormat"], line)
    # spec runs: remove the final "return" phase
    wd = common.workdir("selftest-spec")
    common.run([vh, "drive-spec", "-bases", "1", "-edits", "2", "-out", wd])
    cfg = 'SPECIFICATION Spec\nINVARIANT Done\nCHECK_DEADLOCK FALSE\nCONSTANTS\n  Clauses = {"C07", "C10"}\n  OpenDevs = {}\n  ErrMsgs = {}\n  WarnMsgs = {}\n  Contributing = {}\n'
    c, line = corrupt(schemafam.chunks(wd)[0], lambda e: len(e["phases"]) > 3, lambda e: e["phases"].pop(2))
    expect("Trace_SpecRun (skip a phase)", c, "Trace_SpecRun", [], line, cfg)
    print("selftest %s" % ("ok" if ok else "FAILED"))
    return 0 if ok else 1
