package gen

import (
	"encoding/json"
	"math/rand"
	"regexp"
	"strings"
)

// InstFor builds an instance shaped after the schema: objects get (most of) the declared properties, a key
// matching each pattern property and sometimes an undeclared key; arrays get elements built from items / tuple /
// additionalItems; leaves usually satisfy the declared type. `wrong` is the probability of planting an offender at
// each node. defs resolves local references.
func InstFor(r *rand.Rand, s M, defs M, depth int, wrong float64) interface{} {
	if ref, ok := s["$ref"].(string); ok {
		name := strings.TrimPrefix(ref, "#/definitions/")
		if d, ok := defs[name].(map[string]interface{}); ok && depth > 0 {
			return InstFor(r, d, defs, depth-1, wrong)
		}
		return RInst(r, 1)
	}
	if r.Float64() < wrong {
		return RInst(r, 1)
	}
	// composition: follow one branch
	for _, kw := range []string{"allOf", "anyOf", "oneOf"} {
		if a, ok := s[kw].([]interface{}); ok && len(a) > 0 && r.Intn(2) == 0 {
			if m, ok := a[r.Intn(len(a))].(map[string]interface{}); ok && depth > 0 {
				merged := M{}
				for k, v := range s {
					if k != kw {
						merged[k] = v
					}
				}
				for k, v := range m {
					if _, has := merged[k]; !has {
						merged[k] = v
					}
				}
				return InstFor(r, merged, defs, depth-1, wrong)
			}
		}
	}
	if e, ok := s["enum"].([]interface{}); ok && len(e) > 0 && r.Intn(4) > 0 {
		return e[r.Intn(len(e))]
	}
	t := ""
	switch x := s["type"].(type) {
	case string:
		t = x
	case []interface{}:
		if len(x) > 0 {
			t, _ = x[r.Intn(len(x))].(string)
		}
	}
	_, hasProps := s["properties"]
	_, hasPP := s["patternProperties"]
	_, hasAP := s["additionalProperties"]
	_, hasReq := s["required"]
	_, hasItems := s["items"]
	_, hasAI := s["additionalItems"]
	if t == "" {
		switch {
		case hasProps || hasPP || hasAP || hasReq:
			t = "object"
		case hasItems || hasAI:
			t = "array"
		}
	}
	switch t {
	case "object":
		m := M{}
		if depth <= 0 {
			return m
		}
		if p, ok := s["properties"].(map[string]interface{}); ok {
			for k, sub := range p {
				if r.Float64() < 0.65 {
					if sm, ok := sub.(map[string]interface{}); ok {
						m[k] = InstFor(r, sm, defs, depth-1, wrong)
					}
				}
			}
		}
		if pp, ok := s["patternProperties"].(map[string]interface{}); ok {
			for pat, sub := range pp {
				re, err := regexp.Compile(pat)
				if err != nil {
					continue
				}
				for _, k := range Keys {
					if re.MatchString(k) && r.Intn(2) == 0 {
						if sm, ok := sub.(map[string]interface{}); ok {
							m[k] = InstFor(r, sm, defs, depth-1, wrong)
						}
						break
					}
				}
			}
		}
		if r.Float64() < 0.5 {
			k := Keys[r.Intn(len(Keys))]
			if _, has := m[k]; !has {
				if ap, ok := s["additionalProperties"].(map[string]interface{}); ok {
					m[k] = InstFor(r, ap, defs, depth-1, wrong)
				} else {
					m[k] = RInst(r, 1)
				}
			}
		}
		if req, ok := s["required"].([]interface{}); ok {
			for _, k := range req {
				ks, _ := k.(string)
				if _, has := m[ks]; !has && r.Float64() < 0.75 {
					m[ks] = RInst(r, 0)
				}
			}
		}
		return m
	case "array":
		if depth <= 0 {
			return []interface{}{}
		}
		var out []interface{}
		switch it := s["items"].(type) {
		case map[string]interface{}:
			for n := r.Intn(4); n > 0; n-- {
				out = append(out, InstFor(r, it, defs, depth-1, wrong))
			}
		case []interface{}:
			n := len(it) - 1 + r.Intn(3)
			for i := 0; i < n; i++ {
				if i < len(it) {
					if sm, ok := it[i].(map[string]interface{}); ok {
						out = append(out, InstFor(r, sm, defs, depth-1, wrong))
						continue
					}
				}
				if ai, ok := s["additionalItems"].(map[string]interface{}); ok {
					out = append(out, InstFor(r, ai, defs, depth-1, wrong))
				} else {
					out = append(out, RInst(r, 0))
				}
			}
		default:
			for n := r.Intn(3); n > 0; n-- {
				out = append(out, RInst(r, 1))
			}
		}
		if out == nil {
			out = []interface{}{}
		}
		return out
	case "string":
		return Strs[r.Intn(len(Strs))]
	case "integer":
		return json.Number([]string{"0", "1", "2", "3", "5", "-1", "10", "7", "4"}[r.Intn(9)])
	case "number":
		return numLit(r)
	case "boolean":
		return r.Intn(2) == 0
	case "null":
		return nil
	}
	return RInst(r, 1)
}

// NestingSchema returns a random schema of the "nesting class" of C17: local keywords plus properties,
// patternProperties, additionalProperties, items (single and tuple), additionalItems and required - no
// composition, dependencies or references.
func NestingSchema(r *rand.Rand, d int) M {
	s := M{}
	p := func(x float64) bool { return r.Float64() < x }
	kind := r.Intn(6)
	if d <= 0 && kind < 2 {
		kind = 2 + r.Intn(4)
	}
	switch kind {
	case 0: // object
		if p(0.7) {
			s["type"] = "object"
		}
		m := M{}
		for i := 1 + r.Intn(3); i > 0; i-- {
			k := Keys[r.Intn(len(Keys))]
			if p(0.07) { // member names that would mean something to a formatting function
				k = []string{"a%sb", "rate%", "%d"}[r.Intn(3)]
			}
			m[k] = NestingSchema(r, d-1)
		}
		s["properties"] = m
		if p(0.35) {
			s["patternProperties"] = M{Pats[r.Intn(len(Pats))]: NestingSchema(r, d-1)}
		}
		if p(0.5) {
			if p(0.4) {
				s["additionalProperties"] = false
			} else {
				s["additionalProperties"] = NestingSchema(r, d-1)
			}
		}
		if p(0.5) {
			s["required"] = []interface{}{Keys[r.Intn(len(Keys))]}
		}
		if p(0.2) {
			s["maxProperties"] = 1 + r.Intn(3)
		}
	case 1: // array
		if p(0.7) {
			s["type"] = "array"
		}
		if p(0.4) {
			s["items"] = NestingSchema(r, d-1)
		} else {
			n := 1 + r.Intn(3)
			t := make([]interface{}, n)
			for i := range t {
				t[i] = NestingSchema(r, d-1)
			}
			s["items"] = t
			if p(0.7) {
				if p(0.3) {
					s["additionalItems"] = false
				} else {
					s["additionalItems"] = NestingSchema(r, d-1)
				}
			}
		}
		if p(0.2) {
			s["maxItems"] = 1 + r.Intn(3)
		}
		if p(0.2) {
			s["uniqueItems"] = true
		}
	case 2:
		s["type"] = "string"
		if p(0.4) {
			s["maxLength"] = r.Intn(3)
		}
		if p(0.3) {
			s["pattern"] = Pats[r.Intn(len(Pats))]
		}
	case 3:
		s["type"] = []string{"integer", "number"}[r.Intn(2)]
		if p(0.5) {
			s["maximum"] = json.Number([]string{"1", "2", "3"}[r.Intn(3)])
		}
		if p(0.3) {
			s["multipleOf"] = json.Number("2")
		}
	case 4:
		s["enum"] = []interface{}{RInst(r, 0), RInst(r, 0)}
	case 5:
		s["type"] = []string{"boolean", "null", "string"}[r.Intn(3)]
	}
	return s
}
