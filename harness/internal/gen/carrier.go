package gen

import (
	"encoding/json"
	"fmt"
)

// A Carrier is one place of a specification that can carry a default or an example, with a clean document D0
// (the place present, no value), the document D1 = D0 + the value, and the schema that judges the value.
type Carrier struct {
	Loc    string
	What   string // default | example
	Name   string
	Simple bool // judged by simple-schema semantics (parameter / header / items)
	Schema M    // the judging schema (generic JSON; for Simple: the simple definition)
	Value  interface{}
	Doc0   M
	Doc1   M
	Accept bool     // the generator's intention (the spec decides)
	VPaths []string // the dotted paths the default/example walker builds on its way to this place
}

// judged schemas with a value they accept and one they reject
var carrierSchemas = []struct {
	schema string
	ok     string
	bad    string
}{
	{`{"type":"integer","maximum":5}`, `3`, `9`},
	{`{"type":"string","maxLength":2}`, `"ab"`, `"abcd"`},
	{`{"type":"array","items":{"type":"integer"}}`, `[1,2]`, `[1,"x"]`},
	{`{"type":"object","required":["k"],"properties":{"k":{"type":"string"}}}`, `{"k":"v"}`, `{"z":1}`},
	{`{"type":"string","enum":["a","b"]}`, `"a"`, `"c"`},
	{`{"type":"number","minimum":1.5}`, `2`, `1`},
	// rejected values that are the zero value of their kind
	{`{"type":"integer","minimum":1}`, `3`, `0`},
	{`{"type":"string","minLength":2}`, `"ab"`, `""`},
	{`{"type":"boolean","enum":[true]}`, `true`, `false`},
}
var carrierSimple = []struct {
	def string
	ok  string
	bad string
}{
	{`{"type":"integer","maximum":5}`, `3`, `9`},
	{`{"type":"string","maxLength":2}`, `"ab"`, `"abcd"`},
	{`{"type":"string","enum":["a","b"]}`, `"a"`, `"c"`},
	{`{"type":"boolean"}`, `true`, `"no"`},
	{`{"type":"integer","minimum":1}`, `3`, `0`},
	{`{"type":"string","minLength":1}`, `"a"`, `""`},
}

func baseCarrierDoc() M {
	return mustObj(`{"swagger":"2.0","info":{"title":"c","version":"1"},"paths":{"/p":{"post":{"operationId":"op","parameters":[],"responses":{"200":{"description":"ok"}}}}},"definitions":{}}`)
}

func jclone(m M) M {
	b, _ := json.Marshal(m)
	return mustObj(string(b))
}

// wrap returns the schema with the judged schema nested below it at the given kind of place, and the function that
// plants the value there.
type placer func(doc M, with interface{}, what string)

// Carriers enumerates the carrier universe: location kinds x names x judging schemas x {default, example} x {accepted, rejected}.
func Carriers() []Carrier {
	var out []Carrier
	names := []string{"a", "b", "a.a", "default", "b.b"}
	var vp []string // set by the build functions
	add := func(loc, name, what string, simple bool, schemaText, valText string, accept bool, build func(js M) (M, func(target M) M)) {
		vp = nil
		js := mustObj(schemaText)
		doc0, locate := build(jclone(js))
		doc1 := jclone(doc0)
		target := locate(doc1)
		target[what] = mustJSON(valText)
		out = append(out, Carrier{Loc: loc, What: what, Name: name, Simple: simple, Schema: js, Value: mustJSON(valText), Doc0: doc0, Doc1: doc1, Accept: accept, VPaths: vp})
	}
	referenced := true // whether the definition under test is referenced by an operation (then it is also reached through the response walk)
	refResp := func(doc M, def string) {
		if referenced {
			doc["paths"].(M)["/p"].(M)["post"].(M)["responses"].(M)["200"].(M)["schema"] = M{"$ref": "#/definitions/" + def}
		}
	}
	for si, cs := range carrierSchemas {
		for _, what := range []string{"default", "example"} {
			for _, acc := range []bool{true, false} {
				val := cs.ok
				if !acc {
					val = cs.bad
				}
				for ni, name := range names {
					if (si+ni)%2 == 1 && name != "a" { // keep the universe moderate: every name with half of the schemas
						continue
					}
					name := name
					for _, refd := range []bool{true, false} {
						referenced = refd
						locSuffix := ""
						if !refd {
							if si%2 == 1 {
								continue
							}
							locSuffix = "-unreferenced"
						}
						// 1. the definition itself
						add("definition"+locSuffix, name, what, false, cs.schema, val, acc, func(js M) (M, func(M) M) {
							d := baseCarrierDoc()
							d["definitions"].(M)[name] = js
							refResp(d, name)
							vp = []string{"definitions." + name}
							return d, func(t M) M { return t["definitions"].(M)[name].(M) }
						})
						// 2. a property at depth 1..3 (the property is named like the definition in one variant: definitions.a.a)
						for depth := 1; depth <= 3; depth++ {
							depth := depth
							for _, pname := range []string{"p", name} {
								pname := pname
								add(fmt.Sprintf("property-depth%d%s", depth, locSuffix), name+"/"+pname, what, false, cs.schema, val, acc, func(js M) (M, func(M) M) {
									d := baseCarrierDoc()
									inner := js
									for k := depth; k >= 1; k-- {
										pn := pname
										if k < depth {
											pn = fmt.Sprintf("l%d", k)
										}
										inner = M{"type": "object", "properties": M{pn: inner}}
									}
									d["definitions"].(M)[name] = inner
									refResp(d, name)
									p := "definitions." + name
									vp = []string{p}
									for k := 1; k <= depth; k++ {
										pn := pname
										if k < depth {
											pn = fmt.Sprintf("l%d", k)
										}
										p += "." + pn
										vp = append(vp, p)
									}
									return d, func(t M) M {
										cur := t["definitions"].(M)[name].(M)
										for k := 1; k <= depth; k++ {
											pn := pname
											if k < depth {
												pn = fmt.Sprintf("l%d", k)
											}
											cur = cur["properties"].(M)[pn].(M)
										}
										return cur
									}
								})
							}
						}
					}
					referenced = true
					// 3. items of an array property; 4. a tuple item; 5. additionalProperties; 6. an allOf member
					add("items", name, what, false, cs.schema, val, acc, func(js M) (M, func(M) M) {
						d := baseCarrierDoc()
						d["definitions"].(M)[name] = M{"type": "object", "properties": M{"list": M{"type": "array", "items": js}}}
						refResp(d, name)
						vp = []string{"definitions." + name, "definitions." + name + ".list", "definitions." + name + ".list.items.default"}
						return d, func(t M) M { return t["definitions"].(M)[name].(M)["properties"].(M)["list"].(M)["items"].(M) }
					})
					add("additionalProperties", name, what, false, cs.schema, val, acc, func(js M) (M, func(M) M) {
						d := baseCarrierDoc()
						d["definitions"].(M)[name] = M{"type": "object", "additionalProperties": js}
						refResp(d, name)
						vp = []string{"definitions." + name, "definitions." + name + ".additionalProperties"}
						return d, func(t M) M { return t["definitions"].(M)[name].(M)["additionalProperties"].(M) }
					})
					add("allOf-member", name, what, false, cs.schema, val, acc, func(js M) (M, func(M) M) {
						d := baseCarrierDoc()
						d["definitions"].(M)[name] = M{"allOf": []interface{}{M{"type": "object", "properties": M{"q": js}}, M{"type": "object", "properties": M{"r": M{"type": "string"}}}}}
						refResp(d, name)
						vp = []string{"definitions." + name, "definitions." + name + ".allOf[0]", "definitions." + name + ".allOf[0].q"}
						return d, func(t M) M {
							return t["definitions"].(M)[name].(M)["allOf"].([]interface{})[0].(M)["properties"].(M)["q"].(M)
						}
					})
					// 7. a definition reached through $ref from another definition
					add("definition-via-ref", name, what, false, cs.schema, val, acc, func(js M) (M, func(M) M) {
						d := baseCarrierDoc()
						d["definitions"].(M)[name] = js
						d["definitions"].(M)["Holder"] = M{"type": "object", "properties": M{"h": M{"$ref": "#/definitions/" + name}}}
						refResp(d, "Holder")
						vp = []string{"definitions." + name}
						return d, func(t M) M { return t["definitions"].(M)[name].(M) }
					})
				}
				// 8. body-parameter schema; 9. response schema (and a property below each)
				for _, pn := range []string{"body", "a.a"} {
					pn := pn
					add("body-parameter", pn, what, false, cs.schema, val, acc, func(js M) (M, func(M) M) {
						d := baseCarrierDoc()
						op := d["paths"].(M)["/p"].(M)["post"].(M)
						op["parameters"] = []interface{}{M{"name": pn, "in": "body", "schema": js}}
						vp = []string{pn}
						return d, func(t M) M {
							return t["paths"].(M)["/p"].(M)["post"].(M)["parameters"].([]interface{})[0].(M)["schema"].(M)
						}
					})
				}
				add("response-schema", "200", what, false, cs.schema, val, acc, func(js M) (M, func(M) M) {
					d := baseCarrierDoc()
					d["paths"].(M)["/p"].(M)["post"].(M)["responses"].(M)["200"].(M)["schema"] = js
					return d, func(t M) M { return t["paths"].(M)["/p"].(M)["post"].(M)["responses"].(M)["200"].(M)["schema"].(M) }
				})
				// a second operation (no parameters, no headers) whose response uses the same status code as the first one
				for _, twin := range []string{"/o1", "/zz"} {
					twin := twin
					add("second-operation-response-schema", twin, what, false, cs.schema, val, acc, func(js M) (M, func(M) M) {
						d := baseCarrierDoc()
						d["paths"].(M)["/p"].(M)["post"].(M)["responses"].(M)["200"].(M)["schema"] = M{"type": "object", "properties": M{"k": M{"type": "string"}}}
						d["paths"].(M)[twin] = M{"get": M{"operationId": "op2", "responses": M{"200": M{"description": "ok", "schema": js}}}}
						return d, func(t M) M { return t["paths"].(M)[twin].(M)["get"].(M)["responses"].(M)["200"].(M)["schema"].(M) }
					})
				}
				// two operations whose responses ALREADY carry the same rejected example (one warning text, reported once): a further
				// example in the second one is reported as well, whatever else was reported before it in the same merge
				if what == "example" {
					for _, twin := range []string{"/o1", "/zz"} {
						twin := twin
						add("second-operation-crowded", twin, what, false, cs.schema, val, acc, func(js M) (M, func(M) M) {
							d := baseCarrierDoc()
							noisy := func() M { return M{"type": "object", "properties": M{"name": M{"type": "string", "example": 5}}} }
							d["paths"].(M)["/p"].(M)["post"].(M)["responses"].(M)["200"].(M)["schema"] = M{"allOf": []interface{}{noisy()}}
							d["paths"].(M)[twin] = M{"get": M{"operationId": "op2", "responses": M{"200": M{"description": "ok",
								"schema": M{"allOf": []interface{}{noisy(), M{"type": "object", "properties": M{"other": js}}}}}}}}
							return d, func(t M) M {
								return t["paths"].(M)[twin].(M)["get"].(M)["responses"].(M)["200"].(M)["schema"].(M)["allOf"].([]interface{})[1].(M)["properties"].(M)["other"].(M)
							}
						})
					}
				}
				// a document that already produces a WARNING in an earlier phase (a numeric keyword on a string parameter, a property
				// both required and readOnly): warnings never stop a validation, the value is judged all the same
				add("definition-with-early-warning", "W", what, false, cs.schema, val, acc, func(js M) (M, func(M) M) {
					d := baseCarrierDoc()
					d["paths"].(M)["/p"].(M)["post"].(M)["parameters"] = []interface{}{M{"name": "w", "in": "query", "type": "string", "maximum": 5}}
					d["definitions"].(M)["W"] = M{"type": "object", "required": []interface{}{"ro"}, "properties": M{"ro": M{"type": "string", "readOnly": true}, "v": js}}
					d["paths"].(M)["/p"].(M)["post"].(M)["responses"].(M)["200"].(M)["schema"] = M{"$ref": "#/definitions/W"}
					vp = []string{"definitions.W", "definitions.W.v"}
					return d, func(t M) M { return t["definitions"].(M)["W"].(M)["properties"].(M)["v"].(M) }
				})
				add("response-schema-property", "default", what, false, cs.schema, val, acc, func(js M) (M, func(M) M) {
					d := baseCarrierDoc()
					d["paths"].(M)["/p"].(M)["post"].(M)["responses"].(M)["default"] = M{"description": "d", "schema": M{"type": "object", "properties": M{"x": js}}}
					return d, func(t M) M {
						return t["paths"].(M)["/p"].(M)["post"].(M)["responses"].(M)["default"].(M)["schema"].(M)["properties"].(M)["x"].(M)
					}
				})
			}
		}
	}
	// the per-media-type examples of a response, judged by the response schema
	for _, cs := range carrierSchemas {
		for _, acc := range []bool{true, false} {
			val := cs.ok
			if !acc {
				val = cs.bad
			}
			js := mustObj(cs.schema)
			d0 := baseCarrierDoc()
			d0["paths"].(M)["/p"].(M)["post"].(M)["responses"].(M)["200"].(M)["schema"] = jclone(js)
			d1 := jclone(d0)
			d1["paths"].(M)["/p"].(M)["post"].(M)["responses"].(M)["200"].(M)["examples"] = M{"application/json": mustJSON(val)}
			out = append(out, Carrier{Loc: "response-examples", What: "example", Name: "application/json", Schema: js, Value: mustJSON(val), Doc0: d0, Doc1: d1, Accept: acc})
		}
	}
	// simple parameters, headers and their items: defaults only (no example keyword there)
	for _, cs := range carrierSimple {
		for _, acc := range []bool{true, false} {
			val := cs.ok
			if !acc {
				val = cs.bad
			}
			for _, pname := range []string{"q", "a.a"} {
				pname := pname
				add("simple-parameter", pname, "default", true, cs.def, val, acc, func(js M) (M, func(M) M) {
					d := baseCarrierDoc()
					js["name"], js["in"] = pname, "query"
					d["paths"].(M)["/p"].(M)["post"].(M)["parameters"] = []interface{}{js}
					return d, func(t M) M { return t["paths"].(M)["/p"].(M)["post"].(M)["parameters"].([]interface{})[0].(M) }
				})
				add("parameter-items", pname, "default", true, cs.def, val, acc, func(js M) (M, func(M) M) {
					d := baseCarrierDoc()
					d["paths"].(M)["/p"].(M)["post"].(M)["parameters"] = []interface{}{M{"name": pname, "in": "query", "type": "array", "items": js}}
					return d, func(t M) M {
						return t["paths"].(M)["/p"].(M)["post"].(M)["parameters"].([]interface{})[0].(M)["items"].(M)
					}
				})
				add("parameter-items-with-own-default", pname, "default", true, cs.def, val, acc, func(js M) (M, func(M) M) {
					d := baseCarrierDoc()
					d["paths"].(M)["/p"].(M)["post"].(M)["parameters"] = []interface{}{M{"name": pname, "in": "query", "type": "array", "items": js, "default": []interface{}{}}}
					return d, func(t M) M {
						return t["paths"].(M)["/p"].(M)["post"].(M)["parameters"].([]interface{})[0].(M)["items"].(M)
					}
				})
				add("parameter-items-items", pname, "default", true, cs.def, val, acc, func(js M) (M, func(M) M) {
					d := baseCarrierDoc()
					d["paths"].(M)["/p"].(M)["post"].(M)["parameters"] = []interface{}{M{"name": pname, "in": "query", "type": "array", "items": M{"type": "array", "items": js}}}
					return d, func(t M) M {
						return t["paths"].(M)["/p"].(M)["post"].(M)["parameters"].([]interface{})[0].(M)["items"].(M)["items"].(M)
					}
				})
			}
			add("header", "X-H", "default", true, cs.def, val, acc, func(js M) (M, func(M) M) {
				d := baseCarrierDoc()
				d["paths"].(M)["/p"].(M)["post"].(M)["responses"].(M)["200"].(M)["headers"] = M{"X-H": js}
				return d, func(t M) M {
					return t["paths"].(M)["/p"].(M)["post"].(M)["responses"].(M)["200"].(M)["headers"].(M)["X-H"].(M)
				}
			})
			add("header-items-with-own-default", "X-H", "default", true, cs.def, val, acc, func(js M) (M, func(M) M) {
				d := baseCarrierDoc()
				d["paths"].(M)["/p"].(M)["post"].(M)["responses"].(M)["200"].(M)["headers"] = M{"X-H": M{"type": "array", "items": js, "default": []interface{}{}}}
				return d, func(t M) M {
					return t["paths"].(M)["/p"].(M)["post"].(M)["responses"].(M)["200"].(M)["headers"].(M)["X-H"].(M)["items"].(M)
				}
			})
			add("header-items", "X-H", "default", true, cs.def, val, acc, func(js M) (M, func(M) M) {
				d := baseCarrierDoc()
				d["paths"].(M)["/p"].(M)["post"].(M)["responses"].(M)["200"].(M)["headers"] = M{"X-H": M{"type": "array", "items": js}}
				return d, func(t M) M {
					return t["paths"].(M)["/p"].(M)["post"].(M)["responses"].(M)["200"].(M)["headers"].(M)["X-H"].(M)["items"].(M)
				}
			})
		}
	}
	return out
}
