package main

import (
	"encoding/json"
	"flag"
	"fmt"
	"math"
	"math/rand"
	"os"
	"path/filepath"
	"reflect"
	"strings"

	"github.com/go-openapi/spec"
	"github.com/go-openapi/strfmt"
	"github.com/go-openapi/validate"

	"verifharness/internal/enc"
	"verifharness/internal/gen"
)

func init() { commands["drive-simple"] = driveSimple }

// simpleDefEnc encodes a simple-schema definition (generic JSON form).
func simpleDefEnc(ctx *enc.Ctx, d map[string]interface{}) enc.M {
	o := enc.M{}
	has := []interface{}{}
	put := func(k string, v interface{}) { o[k] = v; has = append(has, k) }
	o["type"], _ = d["type"].(string)
	if f, ok := d["format"].(string); ok {
		put("format", f)
		ctx.AddFmt(f)
	}
	if e, ok := d["enum"].([]interface{}); ok {
		ev := make([]interface{}, len(e))
		for i := range e {
			ev[i] = ctx.Value(e[i])
		}
		put("enum", ev)
	}
	for _, k := range []string{"maximum", "minimum", "multipleOf"} {
		if v, ok := d[k]; ok {
			put(k, enc.NumFromDecimal(fmt.Sprint(v)))
		}
	}
	for _, k := range []string{"exclusiveMaximum", "exclusiveMinimum", "uniqueItems"} {
		if v, ok := d[k].(bool); ok {
			put(k, v)
		}
	}
	for _, k := range []string{"maxLength", "minLength", "maxItems", "minItems"} {
		if v, ok := d[k]; ok {
			var n int
			fmt.Sscan(fmt.Sprint(v), &n)
			put(k, n)
		}
	}
	if p, ok := d["pattern"].(string); ok {
		put("pattern", ctx.PatID(p))
	}
	if it, ok := d["items"].(map[string]interface{}); ok {
		put("items", simpleDefEnc(ctx, it))
	}
	o["has"] = has
	return o
}

func collectSimple(ctx *enc.Ctx, d map[string]interface{}) {
	if p, ok := d["pattern"].(string); ok {
		ctx.PatID(p)
	}
	if f, ok := d["format"].(string); ok {
		ctx.AddFmt(f)
	}
	if it, ok := d["items"].(map[string]interface{}); ok {
		collectSimple(ctx, it)
	}
}

// goValueF is goValue with the string facts of the event context.
func goValueF(ctx *enc.Ctx, v interface{}) enc.M {
	m := goValue(v)
	switch m["k"] {
	case "string":
		s := reflect.ValueOf(v).String()
		f := ctx.Str(s)
		m["x"], m["m"], m["fm"] = f["x"], f["m"], f["fm"]
	case "slice":
		rv := reflect.ValueOf(v)
		e := make([]interface{}, rv.Len())
		for i := range e {
			e[i] = goValueF(ctx, rv.Index(i).Interface())
		}
		m["e"] = e
	}
	return m
}

func toF64(v interface{}) (float64, bool) {
	switch x := v.(type) {
	case float64:
		return x, true
	case float32:
		return float64(x), true
	}
	return 0, false
}

// typed Go carriers for a number given as a decimal literal
func carriers(lit string, r *rand.Rand) []interface{} {
	var out []interface{}
	for _, k := range []string{"float64", "float32", "int", "int8", "int16", "int32", "int64", "uint", "uint8", "uint16", "uint32", "uint64"} {
		if v, ok := asKind(k, lit); ok {
			// as in C13, a float kind carries an integer only inside +-2^53 (the JSON-interoperable integers): whether a float
			// holding 2^63 "is an integer" is not something the property settles, so such carriers are outside the domain
			if f, isF := toF64(v); isF && math.Abs(f) >= 1<<53 {
				continue
			}
			out = append(out, v)
		}
	}
	return out
}

var simpleNums = []string{"0", "1", "2", "3", "5", "7", "10", "100", "-1", "-5", "1.5", "2.5", "0.5", "101", "4", "128", "300", "70000", "2147483648", "-2147483649", "4294967296", "9007199254740993", "44", "-112", "144", "4464", "4294967295", "255",
	// the extremes of the 64-bit kinds: still values of the declared type integer / int64 / uint64
	"9223372036854775807", "-9223372036854775808", "9223372036854775296", "18446744073709551615"}

// simpleTypedValue builds a typed Go value for a definition: matching and non-matching kinds, all widths.
func simpleTypedValue(r *rand.Rand, d map[string]interface{}, wrong float64) interface{} {
	t, _ := d["type"].(string)
	if r.Float64() < wrong {
		t = []string{"string", "number", "integer", "boolean", "array"}[r.Intn(5)]
	}
	switch t {
	case "string":
		if e, ok := d["enum"].([]interface{}); ok && r.Intn(2) == 0 {
			if s, ok := e[r.Intn(len(e))].(string); ok {
				return s
			}
		}
		if f, ok := d["format"].(string); ok && r.Intn(3) > 0 {
			switch f {
			case "date":
				return "2020-01-01"
			case "email":
				return "a@b.co"
			case "uuid":
				return "a8098c1a-f86e-11da-bd1a-00112444be1e"
			case "date-time":
				return "2020-01-01T10:00:00Z"
			}
		}
		return gen.Strs[r.Intn(len(gen.Strs))]
	case "number", "integer":
		lit := simpleNums[r.Intn(len(simpleNums))]
		if e, ok := d["enum"].([]interface{}); ok && r.Intn(3) == 0 {
			lit = fmt.Sprint(e[r.Intn(len(e))])
		}
		// the value sitting exactly on a declared bound (inclusive / exclusive boundary), in every kind that can carry it
		for _, k := range []string{"minimum", "maximum"} {
			if b, ok := d[k]; ok && r.Intn(4) == 0 {
				lit = fmt.Sprint(b)
			}
		}
		cs := carriers(lit, r)
		if len(cs) == 0 {
			cs = carriers("7", r)
		}
		return cs[r.Intn(len(cs))]
	case "boolean":
		return r.Intn(2) == 0
	case "array":
		it, _ := d["items"].(map[string]interface{})
		if it == nil {
			it = map[string]interface{}{"type": "string"}
		}
		n := r.Intn(4)
		elems := make([]interface{}, n)
		for i := range elems {
			elems[i] = simpleTypedValue(r, it, wrong)
			if r.Intn(14) == 0 {
				elems[i] = nil // a null element: of no type at all
			}
		}
		// sometimes a typed slice ([]string, []int32, ...) instead of []interface{}
		if n > 0 && r.Intn(2) == 0 {
			t0 := reflect.TypeOf(elems[0])
			same := true
			for _, e := range elems {
				if reflect.TypeOf(e) != t0 {
					same = false
				}
			}
			if same && t0 != nil && t0.Kind() != reflect.Uint8 { // []uint8 is []byte: a base64 string for go-openapi, not an array of numbers
				sl := reflect.MakeSlice(reflect.SliceOf(t0), n, n)
				for i, e := range elems {
					sl.Index(i).Set(reflect.ValueOf(e))
				}
				return sl.Interface()
			}
		}
		return elems
	}
	return nil
}

// restrictSimple keeps the definition inside the part of the domain C16 owns: bounds are integers (fractional bounds
// with integer carriers and float multipleOf tolerances are C13's business)
func restrictSimple(d map[string]interface{}) {
	for _, k := range []string{"maximum", "minimum"} {
		if v, ok := d[k]; ok && strings.Contains(fmt.Sprint(v), ".") {
			d[k] = json.Number(strings.Split(fmt.Sprint(v), ".")[0])
		}
	}
	if v, ok := d["multipleOf"]; ok && strings.Contains(fmt.Sprint(v), ".") {
		d["multipleOf"] = json.Number("2")
	}
	if it, ok := d["items"].(map[string]interface{}); ok {
		restrictSimple(it)
	}
}

func driveSimple(args []string) error {
	fs := flag.NewFlagSet("drive-simple", flag.ExitOnError)
	seed := fs.Int64("seed", 1, "seed")
	n := fs.Int("n", 1500, "definitions")
	per := fs.Int("per", 4, "values per definition")
	mode := fs.String("mode", "random", "random | witness")
	witness := fs.String("witness", "", "witness files")
	out := fs.String("out", "", "output directory")
	fs.Parse(args)
	r := rand.New(rand.NewSource(*seed))
	reg := strfmt.Default
	w := newChunkWriter(*out, 3000)
	defer w.close()
	distinct := map[string]struct{}{}
	nontrivial := map[string]struct{}{}
	var samples []interface{}
	one := func(def map[string]interface{}, val interface{}, entry, in string, recycle bool) error {
		ctx := &enc.Ctx{Reg: reg}
		collectSimple(ctx, def)
		dt, _ := json.Marshal(def)
		var dg interface{}
		dg, _ = decodeNumber(dt)
		ev := enc.M{"ev": "simple", "n": w.n + 1, "entry": entry, "recycle": recycle, "def": simpleDefEnc(ctx, dg.(map[string]interface{})), "val": goValueF(ctx, val), "known": ctx.Known()}
		var opts []validate.Option
		if recycle {
			opts = append(opts, validate.WithRecycleValidators(true))
		}
		res := protect(func() string {
			var rr *validate.Result
			if entry == "header" {
				var h spec.Header
				if err := json.Unmarshal(dt, &h); err != nil {
					return "deferr"
				}
				rr = validate.NewHeaderValidator("X-H", &h, reg, opts...).Validate(val)
			} else {
				pd := map[string]interface{}{"name": "p", "in": in}
				for k, v := range def {
					pd[k] = v
				}
				pt, _ := json.Marshal(pd)
				var p spec.Parameter
				if err := json.Unmarshal(pt, &p); err != nil {
					return "deferr"
				}
				rr = validate.NewParamValidator(&p, reg, opts...).Validate(val)
			}
			if rr == nil {
				return "nil"
			}
			if rr.IsValid() {
				return "valid"
			}
			return "invalid"
		})
		if strings.HasPrefix(res, "PANIC") {
			res = "panic"
		}
		ev["out"] = res
		key := digest(string(dt), repr(val), entry)
		distinct[key] = struct{}{}
		if _, nested := def["items"]; nested {
			nontrivial[key] = struct{}{}
		}
		if len(samples) < 5 && w.n%701 == 0 {
			samples = append(samples, enc.M{"def": json.RawMessage(dt), "value": repr(val), "entry": entry, "out": res})
		}
		return w.write(ev, enc.M{"def": json.RawMessage(dt), "value": repr(val), "entry": entry, "in": in, "recycle": recycle})
	}
	if *mode == "witness" {
		for _, f := range strings.Split(*witness, ",") {
			b, err := os.ReadFile(f)
			if err != nil {
				return err
			}
			var wf struct{ Case string }
			_ = json.Unmarshal(b, &wf)
			switch wf.Case {
			case "HeaderRequiredEmpty":
				err = one(map[string]interface{}{"type": "string"}, "", "header", "", false)
			case "ItemsFormatNotAsserted":
				err = one(map[string]interface{}{"type": "array", "items": map[string]interface{}{"type": "string", "format": "date"}}, []interface{}{"nope"}, "param", "query", false)
			case "FormatSkipsType":
				err = one(map[string]interface{}{"type": "string", "format": "date"}, []interface{}{1, 2}, "param", "query", false)
			default:
				err = fmt.Errorf("unknown witness case %q", wf.Case)
			}
			if err != nil {
				return err
			}
		}
		w.close()
		return writeJSONFile(filepath.Join(*out, "meta.json"), map[string]interface{}{"events": w.n})
	}
	for i := 0; i < *n; i++ {
		def := gen.SimpleDef(r, 4)
		if i%3 == 0 { // force nesting depth: constraint placed at a chosen depth of items
			depth := 1 + r.Intn(4)
			leaf := gen.SimpleDef(r, 0)
			for k := 0; k < depth; k++ {
				leaf = gen.M{"type": "array", "items": leaf}
			}
			def = leaf
		}
		delete(def, "collectionFormat")
		b, _ := json.Marshal(def)
		var dm map[string]interface{}
		d2, _ := decodeNumber(b)
		dm = d2.(map[string]interface{})
		restrictSimple(dm)
		for j := 0; j < *per; j++ {
			var val interface{}
			if j == 0 && i%10 == 0 {
				val = nil
			} else {
				val = simpleTypedValue(r, dm, 0.12)
			}
			entry, in := "param", []string{"query", "header", "path", "formData"}[r.Intn(4)]
			if r.Intn(3) == 0 {
				entry = "header"
			}
			if err := one(dm, val, entry, in, r.Intn(2) == 0); err != nil {
				return err
			}
		}
	}
	w.close()
	return writeJSONFile(filepath.Join(*out, "meta.json"), map[string]interface{}{"events": w.n, "distinct": len(distinct), "distinct_nontrivial": len(nontrivial), "samples": samples})
}
