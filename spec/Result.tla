------------------------------- MODULE Result -------------------------------
(***************************************************************************)
(* validate.Result as an accumulator (result.go): errors and warnings are   *)
(* ORDERED SETS of messages (de-duplicated by message text, first           *)
(* occurrence order), match counts are additive.  One action per public     *)
(* method, written step by step like the code (AddErrors loops over its     *)
(* arguments; Merge = AddErrors; AddWarnings; MatchCount +=, per operand),  *)
(* so that self-merges and repeated operands mean what they mean in Go.     *)
(*                                                                          *)
(* Results borrowed from the pool (pooled = TRUE) are redeemed by the merge *)
(* that consumes them: they must not be used afterwards (alive).            *)
(***************************************************************************)
EXTENDS Integers, Sequences, FiniteSets

CONSTANTS RIds,      \* result handles
          Msgs,      \* message texts
          Nil        \* the nil error / the nil *Result

VARIABLES res,       \* [RIds -> [errs : Seq(Msgs), warns : Seq(Msgs), mc : Nat, pooled : BOOLEAN]]
          alive,     \* handles that may still be used (a pooled result dies when merged)
          op         \* the operation just performed (observation only: hidden by the VIEW of the exhaustive configs)
vars == <<res, alive, op>>
View == <<res, alive>>

InSeq(x, q) == \E j \in 1..Len(q) : q[j] = x
SeqToSet(q) == {q[j] : j \in 1..Len(q)}
Empty == [errs |-> <<>>, warns |-> <<>>, mc |-> 0, pooled |-> FALSE]

\* AddErrors / AddWarnings: nil is ignored, a message already reported is skipped, others are appended in order
AddU(q, m) == IF m = Nil \/ InSeq(m, q) THEN q ELSE Append(q, m)
RECURSIVE AddAll(_, _)
AddAll(q, ms) == IF ms = <<>> THEN q ELSE AddAll(AddU(q, Head(ms)), Tail(ms))

OpAddErrors(R, r, ms)   == [R EXCEPT ![r].errs = AddAll(@, ms)]
OpAddWarnings(R, r, ms) == [R EXCEPT ![r].warns = AddAll(@, ms)]
OpInc(R, r)             == [R EXCEPT ![r].mc = @ + 1]

\* one operand of Merge / MergeAsErrors / MergeAsWarnings, in the order the code performs its three updates
MergeOne(R, r, o, kind) ==
  IF o = Nil THEN R ELSE
  LET R1 == CASE kind = "Merge"           -> OpAddErrors(R, r, R[o].errs)
              [] kind = "MergeAsErrors"   -> OpAddErrors(R, r, R[o].errs)
              [] kind = "MergeAsWarnings" -> OpAddWarnings(R, r, R[o].errs)
      R2 == CASE kind = "Merge"           -> OpAddWarnings(R1, r, R1[o].warns)
              [] kind = "MergeAsErrors"   -> OpAddErrors(R1, r, R1[o].warns)
              [] kind = "MergeAsWarnings" -> OpAddWarnings(R1, r, R1[o].warns)
  IN [R2 EXCEPT ![r].mc = @ + R2[o].mc]
RECURSIVE MergeAll(_, _, _, _)
MergeAll(R, r, os, kind) == IF os = <<>> THEN R ELSE MergeAll(MergeOne(R, r, Head(os), kind), r, Tail(os), kind)

\* operands that are redeemed (die) by a merge
Consumed(R, os) == {o \in SeqToSet(os) \ {Nil} : R[o].pooled}

(***************************************************************************)
(* Queries                                                                  *)
(***************************************************************************)
IsValid(x)             == Len(x.errs) = 0
HasErrors(x)           == Len(x.errs) > 0
HasWarnings(x)         == Len(x.warns) > 0
HasErrorsOrWarnings(x) == Len(x.errs) > 0 \/ Len(x.warns) > 0
AsErrorIsNil(x)        == IsValid(x)
Queries(x) == [valid |-> IsValid(x), haserr |-> HasErrors(x), haswarn |-> HasWarnings(x), hasany |-> HasErrorsOrWarnings(x), aserrnil |-> AsErrorIsNil(x)]
\* every query tolerates a nil *Result: nil is valid, has nothing
NilQueries == [valid |-> TRUE, haserr |-> FALSE, haswarn |-> FALSE, hasany |-> FALSE, aserrnil |-> TRUE]

(***************************************************************************)
(* Actions                                                                  *)
(***************************************************************************)
MsgLists == {<<>>} \cup {<<a>> : a \in Msgs \cup {Nil}} \cup {<<a, b>> : a \in Msgs \cup {Nil}, b \in Msgs \cup {Nil}}
OperandLists == {<<o>> : o \in alive \cup {Nil}} \cup {<<o, p>> : o \in alive \cup {Nil}, p \in alive \cup {Nil}}
\* a pooled operand is redeemed by the merge: it may appear once, and not as its own receiver
LegalOperands(r, os) == \A o \in Consumed(res, os) : o # r /\ Cardinality({j \in 1..Len(os) : os[j] = o}) = 1

Init == /\ res = [r \in RIds |-> Empty]
        /\ alive = RIds
        /\ op = [name |-> "Init"]

AddErrors(r, ms)   == r \in alive /\ res' = OpAddErrors(res, r, ms)   /\ UNCHANGED alive /\ op' = [name |-> "AddErrors", r |-> r, ms |-> ms]
AddWarnings(r, ms) == r \in alive /\ res' = OpAddWarnings(res, r, ms) /\ UNCHANGED alive /\ op' = [name |-> "AddWarnings", r |-> r, ms |-> ms]
Inc(r)             == r \in alive /\ res' = OpInc(res, r)             /\ UNCHANGED alive /\ op' = [name |-> "Inc", r |-> r]
MergeK(kind, r, os) == /\ r \in alive /\ LegalOperands(r, os)
                       /\ res' = MergeAll(res, r, os, kind)
                       /\ alive' = alive \ Consumed(res, os)
                       /\ op' = [name |-> kind, r |-> r, os |-> os]
\* a fresh result (new(Result)) or one borrowed from the pool takes the place of handle r
New(r, pooled) == /\ res' = [res EXCEPT ![r] = [Empty EXCEPT !.pooled = pooled]]
                  /\ alive' = alive \cup {r}
                  /\ op' = [name |-> "New", r |-> r, pooled |-> pooled]

Next == \E r \in RIds :
          \/ \E ms \in MsgLists : AddErrors(r, ms) \/ AddWarnings(r, ms)
          \/ Inc(r)
          \/ \E os \in OperandLists, kind \in {"Merge", "MergeAsErrors", "MergeAsWarnings"} : MergeK(kind, r, os)
          \/ \E p \in BOOLEAN : New(r, p)
Spec == Init /\ [][Next]_vars

(***************************************************************************)
(* Properties (C20)                                                         *)
(***************************************************************************)
NoDupSeq(q) == \A a, b \in 1..Len(q) : a # b => q[a] # q[b]
NoDupMsgs == \A r \in RIds : NoDupSeq(res[r].errs) /\ NoDupSeq(res[r].warns) /\ ~InSeq(Nil, res[r].errs) /\ ~InSeq(Nil, res[r].warns)
ValidIffNoErrors == \A r \in RIds : IsValid(res[r]) = (res[r].errs = <<>>) /\ HasErrors(res[r]) = ~IsValid(res[r])

IsPrefix(p, q) == Len(p) <= Len(q) /\ SubSeq(q, 1, Len(p)) = p
\* nothing already reported is ever lost or reordered, whatever the operation (New replaces the object)
Monotone(r) == IsPrefix(res[r].errs, res'[r].errs) /\ IsPrefix(res[r].warns, res'[r].warns) /\ res'[r].mc >= res[r].mc
PrefixPreserved == [][\A r \in RIds : (op'.name = "New" /\ op'.r = r) \/ Monotone(r)]_vars

\* merging adds match counts; every message of an operand is in the named category of the receiver afterwards;
\* an operand that is not the receiver is left untouched
MergeProps(kind, r, os) ==
  LET ops == SeqToSet(os) \ {Nil} IN
  /\ (r \notin ops) => res'[r].mc = res[r].mc + (LET RECURSIVE Sum(_) Sum(q) == IF q = <<>> THEN 0 ELSE (IF Head(q) = Nil THEN 0 ELSE res[Head(q)].mc) + Sum(Tail(q)) IN Sum(os))
  /\ \A o \in ops :
       /\ kind = "Merge" => SeqToSet(res[o].errs) \subseteq SeqToSet(res'[r].errs) /\ SeqToSet(res[o].warns) \subseteq SeqToSet(res'[r].warns)
       /\ kind = "MergeAsErrors" => SeqToSet(res[o].errs) \cup SeqToSet(res[o].warns) \subseteq SeqToSet(res'[r].errs)
       /\ kind = "MergeAsWarnings" => SeqToSet(res[o].errs) \cup SeqToSet(res[o].warns) \subseteq SeqToSet(res'[r].warns)
       /\ o # r => res'[o] = res[o]
  /\ kind = "Merge" => SeqToSet(res'[r].errs) = SeqToSet(res[r].errs) \cup UNION {SeqToSet(res[o].errs) : o \in ops}
  /\ kind = "MergeAsErrors" => SeqToSet(res'[r].warns) = SeqToSet(res[r].warns)
  /\ kind = "MergeAsWarnings" => SeqToSet(res'[r].errs) = SeqToSet(res[r].errs)
MergeIsAdditive == [][op'.name \in {"Merge", "MergeAsErrors", "MergeAsWarnings"} => MergeProps(op'.name, op'.r, op'.os)]_vars
\* an operation on one result never changes another one (no aliasing)
FrameAdd == [][op'.name \in {"AddErrors", "AddWarnings", "Inc", "New"} => \A q \in RIds \ {op'.r} : res'[q] = res[q]]_vars
\* AddErrors / AddWarnings: exactly the distinct new messages are appended, in order of first occurrence
AddIsOrderedUnion ==
  [][op'.name \in {"AddErrors", "AddWarnings"} =>
       LET old == IF op'.name = "AddErrors" THEN res[op'.r].errs ELSE res[op'.r].warns
           new == IF op'.name = "AddErrors" THEN res'[op'.r].errs ELSE res'[op'.r].warns
           ext == SubSeq(new, Len(old) + 1, Len(new))
       IN /\ IsPrefix(old, new)
          /\ SeqToSet(ext) = (SeqToSet(op'.ms) \ {Nil}) \ SeqToSet(old)
          /\ NoDupSeq(ext)
          /\ \A a, b \in 1..Len(ext) : a < b =>      \* first-occurrence order of the arguments
                (CHOOSE j \in 1..Len(op'.ms) : op'.ms[j] = ext[a] /\ \A q \in 1..(j-1) : op'.ms[q] # ext[a])
                < (CHOOSE j \in 1..Len(op'.ms) : op'.ms[j] = ext[b] /\ \A q \in 1..(j-1) : op'.ms[q] # ext[b])]_vars
=============================================================================
