"""C14 - the exported value helpers implement their textbook definitions for every input."""
from . import common, schemafam


def run(tier, seed):
    check = common.Check("C14", tier, seed, "model_checking")
    vh = common.build_vh()
    live = schemafam.live_devs(check, vh, "Trace_Helpers", common.Known().devs("C14"), driver="drive-helpers")

    def on_fail(fails):
        schemafam.classify(check, fails, live)
    args = ["drive-helpers", "-seed", seed] + (["-full"] if tier != "quick" else [])
    schemafam.run_traces(check, vh, "universe", args, "Trace_Helpers", live, on_fail)
    check.coverage["rule"] = ("MinLength/MaxLength: byte strings of length <= 3 over a 14-byte alphabet (ASCII, lead bytes of 2/3/4-byte forms, continuation bytes, surrogate lead, 0xFF) x limits 0..4, "
                              "expected from Utf8!RuneCount; Pattern: valid/invalid patterns x strings (fact); UniqueItems / Enum / EnumCase: pairs and triples over a 49-entry typed value table (ints and "
                              "floats of several kinds with equal and unequal values, strings differing in case, nested slices/maps, pointers to equal values, typed and untyped nil), expected from "
                              "Helpers!DeepEq; Required / ReadOnly: every value x 7 operation contexts (none, request, response, nested tags, an unrelated context value); MinItems/MaxItems, "
                              "RequiredString/RequiredNumber, FormatOf x {nil, Default, empty registry}. Every call is made twice and its arguments are snapshotted (purity). The quick tier samples "
                              "the larger universes by seed; the thorough tier enumerates them. distinct = distinct (helper, arguments).")
    check.coverage["exhaustive"] = tier != "quick"
    check.coverage["open_deviations_honoured"] = sorted(live)
    check.assumptions = ["case folding is checked on strings whose lower-casing is unambiguous (strings.ToLower supplied as a fact)", "regexp and registry answers are facts"]
    return check.finish()
