package main

import (
	"bytes"
	"encoding/json"
	"flag"
	"fmt"
	"math/rand"
	"os"
	"path/filepath"
	"strings"
	"time"

	"github.com/go-openapi/spec"
	"github.com/go-openapi/strfmt"
	"github.com/go-openapi/validate"

	"verifharness/internal/enc"
	"verifharness/internal/gen"
)

func init() { commands["drive-schema"] = driveSchema }

func decodeNumber(text []byte) (interface{}, error) {
	d := json.NewDecoder(bytes.NewReader(text))
	d.UseNumber()
	var v interface{}
	err := d.Decode(&v)
	return v, err
}

func decodeFloat(text []byte) (interface{}, error) {
	var v interface{}
	err := json.Unmarshal(text, &v)
	return v, err
}

func countKeywords(s interface{}) int {
	n := 0
	switch x := s.(type) {
	case map[string]interface{}:
		for k, v := range x {
			if k == "definitions" {
				continue
			}
			n++
			switch k {
			case "enum", "default", "required":
			default:
				n += countKeywords(v)
			}
		}
	case []interface{}:
		for _, v := range x {
			n += countKeywords(v)
		}
	}
	return n
}

// schemaCase runs one (schema, instance) pair through both entry points and returns the event.
func schemaCase(idx int, schemaText, instText []byte, reg strfmt.Registry) (enc.M, error) {
	sg, err := decodeNumber(schemaText)
	if err != nil {
		return nil, err
	}
	ig, err := decodeNumber(instText)
	if err != nil {
		return nil, err
	}
	ctx := &enc.Ctx{Reg: reg}
	ctx.Collect(sg)
	root := ctx.Root(sg.(map[string]interface{}))
	inst := ctx.Value(ig)

	run := func(oneShot bool) string {
		out := ""
		st, _ := guarded(30*time.Second, func() {
			var s spec.Schema
			if err := json.Unmarshal(schemaText, &s); err != nil {
				out = "schemaerr"
				return
			}
			data, _ := decodeFloat(instText)
			if oneShot {
				if validate.AgainstSchema(&s, data, reg) == nil {
					out = "valid"
				} else {
					out = "invalid"
				}
				return
			}
			if validate.NewSchemaValidator(&s, nil, "", reg).Validate(data).IsValid() {
				out = "valid"
			} else {
				out = "invalid"
			}
		})
		if st != "" {
			return st
		}
		return out
	}
	ev := enc.M{
		"ev": "schema", "n": idx, "root": root, "i": inst, "known": ctx.Known(),
		"o1": run(true), "o2": run(false),
	}
	return ev, nil
}

func driveSchema(args []string) error {
	fs := flag.NewFlagSet("drive-schema", flag.ExitOnError)
	mode := fs.String("mode", "random", "pairwise | random")
	seed := fs.Int64("seed", 1, "seed")
	n := fs.Int("n", 1000, "number of schemas (random) / cap on pairs (pairwise, 0 = all)")
	per := fs.Int("per", 4, "instances per random schema")
	depth := fs.Int("depth", 3, "max nesting depth of random schemas and instances")
	out := fs.String("out", "", "output directory")
	chunk := fs.Int("chunk", 4000, "events per chunk")
	witness := fs.String("witness", "", "comma separated witness files (mode witness)")
	fs.Parse(args)
	reg := strfmt.Default
	w := newChunkWriter(*out, *chunk)
	defer w.close()
	r := rand.New(rand.NewSource(*seed))
	distinct := map[string]struct{}{}
	nontrivial := map[string]struct{}{}
	var samples []interface{}
	emit := func(schemaText, instText []byte, kw int) error {
		ev, err := schemaCase(w.n+1, schemaText, instText, reg)
		if err != nil {
			return err
		}
		d := digest(string(schemaText), string(instText))
		distinct[d] = struct{}{}
		if kw >= 2 {
			nontrivial[d] = struct{}{}
		}
		if len(samples) < 5 && kw >= 2 && w.n%97 == 0 {
			samples = append(samples, map[string]interface{}{"schema": json.RawMessage(schemaText), "instance": json.RawMessage(instText), "oneShot": ev["o1"], "validator": ev["o2"]})
		}
		return w.write(ev, map[string]interface{}{"schema": json.RawMessage(schemaText), "inst": json.RawMessage(instText)})
	}
	switch *mode {
	case "witness":
		for _, f := range strings.Split(*witness, ",") {
			b, err := os.ReadFile(f)
			if err != nil {
				return err
			}
			var wf struct {
				Schema json.RawMessage `json:"schema"`
				Inst   json.RawMessage `json:"inst"`
			}
			if err := json.Unmarshal(b, &wf); err != nil {
				return err
			}
			if err := emit(wf.Schema, wf.Inst, 2); err != nil {
				return err
			}
		}
	case "pairwise":
		schemas := gen.PairwiseSchemas()
		// quick tier: a seeded sample of the universe; n = 0 takes all of it
		idx := r.Perm(len(schemas))
		if *n > 0 && *n < len(idx) {
			idx = idx[:*n]
		}
		for _, i := range idx {
			st, _ := json.Marshal(schemas[i])
			kw := countKeywords(schemas[i])
			for _, it := range gen.PairwiseInstances {
				if err := emit(st, []byte(it), kw); err != nil {
					return err
				}
			}
		}
	case "random":
		for i := 0; i < *n; i++ {
			s := gen.RRoot(r, *depth, gen.SchemaOpts{Format: true})
			st, _ := json.Marshal(s)
			kw := countKeywords(s)
			for j := 0; j < *per; j++ {
				it, _ := json.Marshal(gen.RInst(r, *depth))
				if err := emit(st, it, kw); err != nil {
					return err
				}
			}
		}
	default:
		return fmt.Errorf("unknown mode %q", *mode)
	}
	w.close()
	return writeJSONFile(filepath.Join(*out, "meta.json"), map[string]interface{}{
		"events": w.n, "chunks": w.chunk + 1, "distinct": len(distinct), "distinct_nontrivial": len(nontrivial), "samples": samples,
		"mode": *mode, "seed": *seed,
	})
}
