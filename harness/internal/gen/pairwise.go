package gen

import "sort"

// The pairwise keyword universe of C01 (DESIGN.md §6): 10 keyword groups, each with hand-chosen
// variants that include the boundary cases the property names. A schema of the universe is the
// conjunction (key-wise union: groups use disjoint keywords) of two variants of different groups.

// Groups maps a group name to its variants (JSON text).
var Groups = map[string][]string{
	"type": {
		`{"type":"null"}`, `{"type":"boolean"}`, `{"type":"number"}`, `{"type":"integer"}`, `{"type":"string"}`,
		`{"type":"array"}`, `{"type":"object"}`, `{"type":["string","null"]}`, `{"type":["integer","array"]}`,
		`{"type":["number","object","boolean"]}`,
	},
	"enum": {
		`{"enum":[1]}`, `{"enum":[null,1]}`, `{"enum":["a","ab"]}`, `{"enum":[[1,2],{"a":1}]}`, `{"enum":[1.5,true]}`,
		`{"enum":[null]}`, `{"enum":[0,false,"",[],{}]}`, `{"enum":[{"a":[1,{"b":null}]}]}`,
	},
	"numeric": {
		`{"minimum":1}`, `{"minimum":1,"exclusiveMinimum":true}`, `{"maximum":1.5}`, `{"maximum":2,"exclusiveMaximum":true}`,
		`{"minimum":-2.5,"maximum":3}`, `{"multipleOf":2}`, `{"multipleOf":0.5}`, `{"multipleOf":0.1}`, `{"multipleOf":0.01,"minimum":0}`,
		`{"multipleOf":3,"maximum":9007199254740991}`, `{"minimum":0.3,"maximum":0.3}`,
	},
	"string": {
		`{"minLength":1}`, `{"maxLength":2}`, `{"minLength":2,"maxLength":2}`, `{"pattern":"^a"}`, `{"pattern":"b$","minLength":2}`,
		`{"pattern":"é"}`, `{"maxLength":0}`, `{"pattern":"^.$"}`,
	},
	"items": {
		`{"items":{"type":"integer"}}`, `{"items":[{"type":"integer"},{"type":"string"}]}`,
		`{"items":[{},{}],"additionalItems":{"type":"integer"}}`, `{"items":[{"type":"integer"}],"additionalItems":false}`,
		`{"items":[{"type":"integer"},{"type":"integer"}],"additionalItems":true}`, `{"additionalItems":{"type":"integer"}}`,
		`{"additionalItems":false}`, `{"items":{"type":"string"},"additionalItems":{"type":"integer"}}`,
		`{"items":[{"minimum":1},{"minimum":1},{"minimum":1}],"additionalItems":{"maximum":0}}`,
		`{"items":{"items":{"type":"integer"}}}`,
	},
	"arrsize": {
		`{"minItems":1}`, `{"maxItems":2}`, `{"minItems":2,"maxItems":2}`, `{"uniqueItems":true}`, `{"uniqueItems":true,"minItems":2}`,
		`{"maxItems":0}`, `{"uniqueItems":false,"maxItems":3}`,
	},
	"props": {
		`{"properties":{"a":{"type":"integer"}}}`, `{"properties":{"a":{"type":"integer"},"b":{"type":"string"}},"additionalProperties":false}`,
		`{"patternProperties":{"^a":{"type":"integer"}}}`, `{"properties":{"a":{"minimum":1}},"patternProperties":{"^a":{"maximum":3}}}`,
		`{"patternProperties":{"^x":{"type":"boolean"}},"additionalProperties":false}`, `{"additionalProperties":{"type":"integer"}}`,
		`{"properties":{"a":{}},"patternProperties":{"b$":{"type":"string"}},"additionalProperties":{"type":"null"}}`,
		`{"additionalProperties":false}`, `{"properties":{"a":{"properties":{"b":{"type":"integer"}},"additionalProperties":false}}}`,
		`{"properties":{"é":{"type":"string"}},"additionalProperties":{"type":"integer"}}`,
		`{"properties":{"a":{"type":"integer"}},"patternProperties":{"^a":{"maximum":3}},"additionalProperties":false}`,
		`{"properties":{"a":{},"ab":{"type":"integer"}},"patternProperties":{"b$":{"minimum":2}},"additionalProperties":false}`,
		// several patterns of which a member matches only some, next to a schema-valued additionalProperties
		`{"patternProperties":{"^a":{"type":"integer"},"b$":{"type":"integer"},"^x":{}},"additionalProperties":{"type":"string"}}`,
		`{"patternProperties":{"^a":{},"c$":{},"^é":{},"^[0-9]":{}},"additionalProperties":{"type":"null"}}`,
		`{"properties":{"c":{}},"patternProperties":{"a":{"minimum":0},"b":{"minimum":0},"x":{"minimum":0}},"additionalProperties":{"maximum":-1}}`,
	},
	"format": {
		`{"type":"string","format":"date"}`, `{"type":["string","null"],"format":"email"}`, `{"type":"string","format":"unknownfmt"}`,
		`{"items":{"type":"string","format":"date"}}`, `{"properties":{"b":{"type":"string","format":"date"}}}`, `{"additionalProperties":{"type":"string","format":"date"}}`,
		`{"patternProperties":{"^b":{"type":"string","format":"date"}}}`, `{"allOf":[{"type":"string","format":"date"}]}`, `{"anyOf":[{"type":"string","format":"date"},{"type":"integer"}]}`,
		`{"not":{"type":"string","format":"date"}}`, `{"dependencies":{"a":{"properties":{"b":{"type":"string","format":"date"}}}}}`,
		`{"dependencies":{"a":{"type":"object","additionalProperties":{"type":"string","format":"email"}}}}`, `{"items":[{"type":"string","format":"date"}],"additionalItems":{"type":"string","format":"email"}}`,
	},
	"objsize": {
		`{"required":["a"]}`, `{"required":["a","b"]}`, `{"minProperties":1}`, `{"maxProperties":1}`, `{"minProperties":2,"maxProperties":2}`,
		`{"required":["é"],"maxProperties":2}`, `{"maxProperties":0}`,
	},
	"compose": {
		`{"allOf":[{"type":"integer"},{"minimum":2}]}`, `{"anyOf":[{"type":"integer"},{"type":"string"}]}`,
		`{"oneOf":[{"type":"integer"},{"minimum":2}]}`, `{"not":{"type":"null"}}`, `{"not":{"type":"integer"}}`,
		`{"allOf":[{"type":["string","null"]}]}`, `{"anyOf":[{"type":"null"},{"required":["a"]}]}`, `{"oneOf":[{"type":"null"},{"type":["null","string"]}]}`,
		`{"allOf":[{"not":{"enum":[null,1]}}]}`, `{"anyOf":[{"minimum":5},{"multipleOf":2}],"not":{"enum":[6]}}`,
		`{"oneOf":[{"required":["a"]},{"required":["b"]}]}`, `{"allOf":[{"properties":{"a":{"type":"integer"}}},{"required":["a"]}]}`,
		`{"not":{"not":{"type":"array"}}}`,
	},
	"depref": {
		`{"dependencies":{"a":["b"]}}`, `{"dependencies":{"a":{"required":["b"]}}}`, `{"dependencies":{"a":{"properties":{"b":{"type":"integer"}}}}}`,
		`{"dependencies":{"a":["b"],"b":["a"]}}`, `{"allOf":[{"$ref":"#/definitions/pos"}],"definitions":{"pos":{"minimum":1}}}`,
		`{"definitions":{"s":{"type":"string"},"n":{"anyOf":[{"$ref":"#/definitions/s"},{"type":"null"}]}},"properties":{"a":{"$ref":"#/definitions/n"}}}`,
		`{"definitions":{"i":{"type":"integer"}},"items":{"$ref":"#/definitions/i"}}`,
		`{"dependencies":{"é":{"minProperties":2}}}`,
		// an empty dependency list next to real ones (members visited in map order)
		`{"dependencies":{"a":[],"b":["c"],"xa":[]}}`, `{"dependencies":{"a":[],"ab":[],"b":{"required":["c"]},"c":["zz"]}}`,
	},
}

// composeGroup and depref both may use allOf/definitions: they are never paired with each other's keys clashing
// because union keeps the first variant's keyword on a clash and such a schema is still a valid member of the universe.

// GroupNames returns the group names sorted.
func GroupNames() []string {
	names := make([]string, 0, len(Groups))
	for k := range Groups {
		names = append(names, k)
	}
	sort.Strings(names)
	return names
}

// PairwiseSchemas enumerates the whole universe: every single variant and every union of two variants of different groups.
func PairwiseSchemas() []M {
	var out []M
	names := GroupNames()
	for _, g := range names {
		for _, v := range Groups[g] {
			out = append(out, mustObj(v))
		}
	}
	for i, g := range names {
		for _, h := range names[i+1:] {
			for _, v := range Groups[g] {
				for _, w := range Groups[h] {
					a, b := mustObj(v), mustObj(w)
					clash := false
					for k := range b {
						if _, ok := a[k]; ok {
							clash = true
						}
					}
					if clash {
						continue
					}
					for k, x := range b {
						a[k] = x
					}
					out = append(out, a)
				}
			}
		}
	}
	return out
}

// PairwiseInstances is the instance table of the universe (JSON text; numbers are re-decoded by the caller).
var PairwiseInstances = []string{
	`null`, `true`, `false`, `0`, `1`, `-1`, `2`, `3`, `1.5`, `-2.5`, `0.3`, `6`, `7`, `0.01`, `9007199254740991`, `1.0`, `4`, `0.25`,
	`""`, `"a"`, `"ab"`, `"abc"`, `"é"`, `"日本"`, `"xa"`, `"b"`,
	`[]`, `[1]`, `[1,2]`, `[1,2,3]`, `[1,2,"x"]`, `[1,"a"]`, `["a","b"]`, `[1,1]`, `[1,1.0]`, `[[1],[1]]`, `[{"a":1},{"a":1.0}]`, `[null]`, `[0,false]`,
	`[1,2,3,4]`, `[3,3,3,-1]`, `[[1,2],[3,"x"]]`, `[1,2,0,1]`,
	`{}`, `{"a":1}`, `{"a":"x"}`, `{"b":1}`, `{"a":1,"b":"s"}`, `{"a":1,"b":2}`, `{"a":4}`, `{"ab":1}`, `{"xa":true}`, `{"xa":1}`, `{"c":null}`,
	`"2020-01-01"`, `"nope"`, `"a@b.co"`, `["2020-01-01"]`, `["nope"]`, `["2020-01-01","nope"]`, `{"b":"2020-01-01"}`, `{"b":"nope"}`, `{"a":1,"b":"nope"}`, `{"a":1,"b":"2020-01-01"}`, `{"a":"x","b":"a@b.co"}`,
	`{"a":{"b":1}}`, `{"a":{"b":"x"}}`, `{"a":{"b":1,"c":2}}`, `{"é":"s"}`, `{"é":1,"a":2}`, `{"a":null}`, `{"a":[1,{"b":null}]}`, `{"b":"s","c":null}`,
	// members named like the schema keywords the object validator treats specially
	`{"id":1}`, `{"a":1,"$schema":"x"}`, `{"a":{"id":"x","b":1}}`,
	// a member named "headers" holding objects with a $ref (the object validator adds an explanation of its own for it)
	`{"headers":{"X":{"$ref":"#/x"}}}`, `{"a":1,"headers":{"h":{"$ref":"y"},"k":{}}}`, `{"a":{"headers":{"h":{"$ref":"z"}}}}`,
}
