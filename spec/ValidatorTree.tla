--------------------------- MODULE ValidatorTree ---------------------------
(* Object life-cycle of recycled validators (pools.go) and the protocol the *)
(* validator tree follows on top of it (schema.go, schema_props.go,         *)
(* object_validator.go, validator.go): borrow -> construct -> use -> redeem. *)
(* One action per code step; every early exit (nil data, failed number      *)
(* conversion); a panic at every user-code point (format checker, lazily    *)
(* met unresolvable $ref) followed by frame-by-frame unwinding that runs    *)
(* each frame's deferred redeemChildren(); redeem().  sync.Pool is modelled *)
(* with its full non-determinism (any pooled object or a new one; GC).      *)
(*                                                                          *)
(* NilSlotBeforeCall selects the ordering of "release the child's slot" vs  *)
(* "run the child": TRUE is what the code does since the fix for C11        *)
(* (commit 1b951b4); FALSE is the earlier ordering, kept so that TLC can    *)
(* reproduce the double redeem (NoDup counterexample) the fix removed.      *)
EXTENDS Integers, Sequences, FiniteSets, TLC

CONSTANTS Gor,              \* goroutines
          MaxObj,           \* objects per pool class
          MaxCalls,         \* top-level validations per goroutine
          NilSlotBeforeCall,\* TRUE = the slot of a child is released before the child runs (the code since fix 1b951b4)
          AllowPanic        \* TRUE = user code (format checker / lazy $ref expansion) may panic

Classes == {"sv", "cv", "pv", "ov"}
Obj == Classes \X (1..MaxObj)
Nil == <<"nil", 0>>
None == "none"
Cls(o) == o[1]

(* validator tree shapes: simple children kinds: "app" applies, "nap" does  *)
(* not apply, "usr" applies and runs user code (may panic)                  *)
L0 == [simple |-> <<"usr">>, props |-> <<>>, lazy |-> <<>>]
ShapeA == [simple |-> <<"app", "nap">>, props |-> <<>>, lazy |-> <<>>]
ShapeB == [simple |-> <<"usr">>, props |-> <<L0>>, lazy |-> <<>>]
ShapeC == [simple |-> <<"nap">>, props |-> <<>>, lazy |-> <<L0>>]
Shapes == {ShapeA, ShapeB, ShapeC}

VARIABLES free,   \* [Classes -> Seq(Obj)]  content of each sync.Pool (duplicates expressible)
          st,     \* [Obj -> {"virgin","live","pooled"}]
          owner,  \* [Obj -> Gor \cup {None}]
          built,  \* [Obj -> BOOLEAN]  every field written since the last borrow
          slots,  \* [Obj -> Seq(Obj \cup {Nil})]  child slots of a validator
          kinds,  \* [Obj -> Seq(STRING)] kind of each child slot ("app","nap","usr","pv","ov")
          stack,  \* [Gor -> Seq(frame)]
          mode,   \* [Gor -> {"idle","run","unwind"}]
          calls,  \* [Gor -> Nat]
          bad     \* set of observed protocol violations
vars == <<free, st, owner, built, slots, kinds, stack, mode, calls, bad>>

PS == [free |-> free, st |-> st, owner |-> owner, built |-> built, slots |-> slots, kinds |-> kinds, bad |-> bad]

Range(q) == {q[i] : i \in 1..Len(q)}
RemoveLast(q) == SubSeq(q, 1, Len(q) - 1)

-----------------------------------------------------------------------------
(* Pool primitives on a pool-state record ps *)

\* Get(): LIFO reuse when `reuse`, else (or when empty) a virgin object
Borrow(ps, g, c, reuse) ==
  LET pooledOK == reuse /\ Len(ps.free[c]) > 0
      o == IF pooledOK THEN ps.free[c][Len(ps.free[c])]
           ELSE IF \E n \in 1..MaxObj : ps.st[<<c, n>>] = "virgin"
                THEN <<c, CHOOSE n \in 1..MaxObj : ps.st[<<c, n>>] = "virgin" /\ \A m \in 1..MaxObj : ps.st[<<c, m>>] = "virgin" => n <= m>>
                ELSE Nil
  IN IF o = Nil THEN [o |-> Nil, ps |-> ps]
     ELSE [o |-> o,
           ps |-> [ps EXCEPT !.free[c] = IF pooledOK THEN RemoveLast(@) ELSE @,
                             \* handing out an object somebody still owns = two borrowers share it
                             !.bad = IF ps.st[o] = "live" THEN @ \cup {"SharedObject"} ELSE @,
                             !.st[o] = "live", !.owner[o] = g, !.built[o] = FALSE]]

\* Put(): no check whatsoever, exactly like sync.Pool
Redeem(ps, o) ==
  [ps EXCEPT !.free[Cls(o)] = Append(@, o), !.st[o] = "pooled", !.owner[o] = None, !.built[o] = FALSE]

\* a read of the object's fields by goroutine g
Use(ps, g, o) ==
  IF ps.st[o] = "live" /\ ps.owner[o] = g /\ ps.built[o] THEN ps
  ELSE [ps EXCEPT !.bad = @ \cup {IF ps.st[o] # "live" THEN "UseAfterRedeem"
                                  ELSE IF ps.owner[o] # g THEN "UseByNonOwner" ELSE "StaleRead"}]

\* redeemChildren + redeem, as in (*SchemaValidator).redeemChildren etc.
RECURSIVE RedeemTree(_, _)
RECURSIVE RedeemKids(_, _, _)
RedeemKids(ps, o, i) ==
  IF i > Len(ps.slots[o]) THEN ps
  ELSE LET c == ps.slots[o][i] IN
       IF c = Nil THEN RedeemKids(ps, o, i + 1)
       ELSE RedeemKids([RedeemTree(ps, c) EXCEPT !.slots[o][i] = Nil], o, i + 1)
RedeemTree(ps, o) == Redeem(RedeemKids(ps, o, 1), o)

-----------------------------------------------------------------------------
(* Eager construction (newSchemaValidator): borrow self, build children *)
RECURSIVE BuildSV(_, _, _, _)
RECURSIVE BuildSubs(_, _, _, _, _, _)
\* returns [o, ps]; o = Nil when the object budget is exhausted
BuildSubs(ps, g, shapes, i, reuse, acc) ==
  IF i > Len(shapes) THEN [objs |-> acc, ps |-> ps]
  ELSE LET r == BuildSV(ps, g, shapes[i], reuse) IN
       IF r.o = Nil THEN [objs |-> <<Nil>>, ps |-> r.ps]
       ELSE BuildSubs(r.ps, g, shapes, i + 1, reuse, Append(acc, r.o))

RECURSIVE BuildSimple(_, _, _, _, _, _)
BuildSimple(ps, g, ks, i, reuse, acc) ==
  IF i > Len(ks) THEN [objs |-> acc, ps |-> ps]
  ELSE LET b == Borrow(ps, g, "cv", reuse) IN
       IF b.o = Nil THEN [objs |-> <<Nil>>, ps |-> b.ps]
       ELSE BuildSimple([b.ps EXCEPT !.built[b.o] = TRUE, !.slots[b.o] = <<>>, !.kinds[b.o] = <<>>],
                        g, ks, i + 1, reuse, Append(acc, b.o))

BuildSV(ps0, g, shape, reuse) ==
  LET bs == Borrow(ps0, g, "sv", reuse) IN
  IF bs.o = Nil THEN [o |-> Nil, ps |-> bs.ps] ELSE
  LET sim == BuildSimple(bs.ps, g, shape.simple, 1, reuse, <<>>) IN
  IF Nil \in Range(sim.objs) THEN [o |-> Nil, ps |-> sim.ps] ELSE
  \* schemaPropsValidator: sub validators are built BEFORE the props object is borrowed
  LET subs == IF Len(shape.props) > 0 THEN BuildSubs(sim.ps, g, shape.props, 1, reuse, <<>>)
              ELSE [objs |-> <<>>, ps |-> sim.ps] IN
  IF Nil \in Range(subs.objs) THEN [o |-> Nil, ps |-> subs.ps] ELSE
  LET pvb == IF Len(shape.props) > 0 THEN Borrow(subs.ps, g, "pv", reuse) ELSE [o |-> Nil, ps |-> subs.ps]
      ps1 == IF pvb.o = Nil THEN pvb.ps
             ELSE [pvb.ps EXCEPT !.built[pvb.o] = TRUE, !.slots[pvb.o] = subs.objs,
                                 !.kinds[pvb.o] = [j \in 1..Len(subs.objs) |-> "sv"]]
      ovb == IF Len(shape.lazy) > 0 THEN Borrow(ps1, g, "ov", reuse) ELSE [o |-> Nil, ps |-> ps1]
      ps2 == IF ovb.o = Nil THEN ovb.ps
             ELSE [ovb.ps EXCEPT !.built[ovb.o] = TRUE, !.slots[ovb.o] = <<>>, !.kinds[ovb.o] = <<>>]
      kidObjs == sim.objs \o (IF pvb.o = Nil THEN <<>> ELSE <<pvb.o>>) \o (IF ovb.o = Nil THEN <<>> ELSE <<ovb.o>>)
      kidKinds == shape.simple \o (IF pvb.o = Nil THEN <<>> ELSE <<"pv">>) \o (IF ovb.o = Nil THEN <<>> ELSE <<"ov">>)
  IN IF (Len(shape.props) > 0 /\ pvb.o = Nil) \/ (Len(shape.lazy) > 0 /\ ovb.o = Nil)
     THEN [o |-> Nil, ps |-> ps2]
     ELSE [o |-> bs.o, ps |-> [ps2 EXCEPT !.built[bs.o] = TRUE, !.slots[bs.o] = kidObjs, !.kinds[bs.o] = kidKinds]]

-----------------------------------------------------------------------------
Commit(ps) == /\ free' = ps.free /\ st' = ps.st /\ owner' = ps.owner /\ built' = ps.built
              /\ slots' = ps.slots /\ kinds' = ps.kinds /\ bad' = ps.bad

Top(g) == stack[g][Len(stack[g])]
Pop(g) == RemoveLast(stack[g])
ReplaceTop(g, f) == Append(Pop(g), f)

Init ==
  /\ free = [c \in Classes |-> <<>>]
  /\ st = [o \in Obj |-> "virgin"]
  /\ owner = [o \in Obj |-> None]
  /\ built = [o \in Obj |-> FALSE]
  /\ slots = [o \in Obj |-> <<>>]
  /\ kinds = [o \in Obj |-> <<>>]
  /\ stack = [g \in Gor |-> <<>>]
  /\ mode = [g \in Gor |-> "idle"]
  /\ calls = [g \in Gor |-> 0]
  /\ bad = {}

(* NewSchemaValidator(..., WithRecycleValidators(true)) followed by Validate *)
StartCall(g) ==
  /\ mode[g] = "idle" /\ calls[g] < MaxCalls
  /\ \E shape \in Shapes, reuse \in BOOLEAN, early \in {"none", "nil", "conv"} :
       LET r == BuildSV(PS, g, shape, reuse) IN
       /\ r.o # Nil
       /\ Commit(r.ps)
       /\ stack' = [stack EXCEPT ![g] = <<[k |-> "sv", o |-> r.o, shape |-> shape, idx |-> 1, ph |-> "call", early |-> early]>>]
       /\ mode' = [mode EXCEPT ![g] = "run"]
       /\ calls' = [calls EXCEPT ![g] = @ + 1]

(* one step of the frame on top of g's stack *)
StepSV(g) ==
  LET f == Top(g)  o == f.o  n == Len(slots[o]) IN
  /\ f.k = "sv"
  /\ IF f.early = "conv" \/ (f.early = "nil" /\ f.idx > 1) \/ f.idx > n
     THEN \* return: deferred redeemChildren(); redeem()
          /\ Commit(RedeemTree(Use(PS, g, o), o))
          /\ stack' = [stack EXCEPT ![g] = Pop(g)]
          /\ mode' = [mode EXCEPT ![g] = IF Len(Pop(g)) = 0 THEN "idle" ELSE "run"]
          /\ UNCHANGED calls
     ELSE LET c == slots[o][f.idx]  kd == kinds[o][f.idx] IN
          IF c = Nil THEN \* (cannot happen on the first pass)
               /\ stack' = [stack EXCEPT ![g] = ReplaceTop(g, [f EXCEPT !.idx = @ + 1, !.ph = "call"])]
               /\ UNCHANGED <<free, st, owner, built, slots, kinds, bad, mode, calls>>
          ELSE IF f.ph = "call" /\ kd = "nap" /\ f.early = "none"
          THEN \* Applies() is false: relinquish the child, nil the slot
               /\ Commit([RedeemTree(Use(PS, g, o), c) EXCEPT !.slots[o][f.idx] = Nil])
               /\ stack' = [stack EXCEPT ![g] = ReplaceTop(g, [f EXCEPT !.idx = @ + 1])]
               /\ UNCHANGED <<mode, calls>>
          ELSE IF f.ph = "call"
          THEN \* v.Validate(d): push the child's frame
               /\ Commit(IF NilSlotBeforeCall THEN [Use(PS, g, o) EXCEPT !.slots[o][f.idx] = Nil] ELSE Use(PS, g, o))
               /\ stack' = [stack EXCEPT ![g] = Append(ReplaceTop(g, [f EXCEPT !.ph = "post"]),
                                                        IF kd \in {"app", "nap", "usr"} THEN [k |-> "cv", o |-> c, kd |-> kd]
                                                        ELSE IF kd = "pv" THEN [k |-> "pv", o |-> c, idx |-> 1, ph |-> "call"]
                                                        ELSE [k |-> "ov", o |-> c, shape |-> f.shape, idx |-> 1, ph |-> "build", sub |-> Nil])]
               /\ UNCHANGED <<mode, calls>>
          ELSE \* child returned: s.validators[idx] = nil (as-is: only now)
               /\ Commit([PS EXCEPT !.slots[o][f.idx] = Nil])
               /\ stack' = [stack EXCEPT ![g] = ReplaceTop(g, [f EXCEPT !.idx = @ + 1, !.ph = "call"])]
               /\ UNCHANGED <<mode, calls>>

\* simple validators: type/string/format/number/common: defer redeem(); use fields; maybe user code
StepCV(g) ==
  LET f == Top(g) IN
  /\ f.k = "cv"
  /\ \/ /\ Commit(Redeem(Use(PS, g, f.o), f.o))          \* normal return (deferred redeem)
        /\ stack' = [stack EXCEPT ![g] = Pop(g)]
        /\ UNCHANGED <<mode, calls>>
     \/ /\ AllowPanic /\ f.kd = "usr"                       \* the format checker panics
        /\ Commit(Use(PS, g, f.o))
        /\ mode' = [mode EXCEPT ![g] = "unwind"]
        /\ UNCHANGED <<stack, calls>>

\* schemaPropsValidator.Validate: children run in turn, slot nilled, deferred redeemChildren+redeem
StepPV(g) ==
  LET f == Top(g)  o == f.o  n == Len(slots[o]) IN
  /\ f.k = "pv"
  /\ IF f.idx > n
     THEN /\ Commit(RedeemTree(Use(PS, g, o), o))
          /\ stack' = [stack EXCEPT ![g] = Pop(g)]
          /\ UNCHANGED <<mode, calls>>
     ELSE LET c == slots[o][f.idx] IN
          IF f.ph = "call"
          THEN /\ c # Nil
               /\ Commit(IF NilSlotBeforeCall THEN [Use(PS, g, o) EXCEPT !.slots[o][f.idx] = Nil] ELSE Use(PS, g, o))
               /\ stack' = [stack EXCEPT ![g] = Append(ReplaceTop(g, [f EXCEPT !.ph = "post"]),
                                 [k |-> "sv", o |-> c, shape |-> L0, idx |-> 1, ph |-> "call", early |-> "none"])]
               /\ UNCHANGED <<mode, calls>>
          ELSE /\ Commit([PS EXCEPT !.slots[o][f.idx] = Nil])
               /\ stack' = [stack EXCEPT ![g] = ReplaceTop(g, [f EXCEPT !.idx = @ + 1, !.ph = "call"])]
               /\ UNCHANGED <<mode, calls>>

\* objectValidator.Validate: builds a validator per property lazily and runs it at once
StepOV(g) ==
  LET f == Top(g)  o == f.o  lz == f.shape.lazy IN
  /\ f.k = "ov"
  /\ IF f.idx > Len(lz)
     THEN /\ Commit(Redeem(Use(PS, g, o), o))
          /\ stack' = [stack EXCEPT ![g] = Pop(g)]
          /\ UNCHANGED <<mode, calls>>
     ELSE IF f.ph = "build"
     THEN \/ \E reuse \in BOOLEAN :
               LET r == BuildSV(Use(PS, g, o), g, lz[f.idx], reuse) IN
               /\ r.o # Nil
               /\ Commit(r.ps)
               /\ stack' = [stack EXCEPT ![g] = Append(ReplaceTop(g, [f EXCEPT !.ph = "post"]),
                                 [k |-> "sv", o |-> r.o, shape |-> lz[f.idx], idx |-> 1, ph |-> "call", early |-> "none"])]
               /\ UNCHANGED <<mode, calls>>
          \/ /\ AllowPanic                                  \* documented panic: unresolvable $ref met lazily
             /\ mode' = [mode EXCEPT ![g] = "unwind"]
             /\ UNCHANGED <<free, st, owner, built, slots, kinds, bad, stack, calls>>
     ELSE /\ stack' = [stack EXCEPT ![g] = ReplaceTop(g, [f EXCEPT !.idx = @ + 1, !.ph = "build"])]
          /\ UNCHANGED <<free, st, owner, built, slots, kinds, bad, mode, calls>>

Step(g) == mode[g] = "run" /\ Len(stack[g]) > 0 /\ (StepSV(g) \/ StepCV(g) \/ StepPV(g) \/ StepOV(g))

\* a panic unwinds frame by frame, running each frame's deferred function; the caller recovers at the top
Unwind(g) ==
  /\ mode[g] = "unwind"
  /\ IF Len(stack[g]) = 0
     THEN /\ mode' = [mode EXCEPT ![g] = "idle"]
          /\ UNCHANGED <<free, st, owner, built, slots, kinds, bad, stack, calls>>
     ELSE LET f == Top(g) IN
          /\ Commit(IF f.k \in {"sv", "pv"} THEN RedeemTree(PS, f.o) ELSE Redeem(PS, f.o))
          /\ stack' = [stack EXCEPT ![g] = Pop(g)]
          /\ UNCHANGED <<mode, calls>>

\* the garbage collector may empty any pool at any time
GC == /\ \E c \in Classes : Len(free[c]) > 0 /\ free' = [free EXCEPT ![c] = <<>>]
      /\ UNCHANGED <<st, owner, built, slots, kinds, stack, mode, calls, bad>>

Next == (\E g \in Gor : StartCall(g) \/ Step(g) \/ Unwind(g)) \/ GC
Spec == Init /\ [][Next]_vars

-----------------------------------------------------------------------------
NoDup == \A c \in Classes : \A i, j \in 1..Len(free[c]) : i # j => free[c][i] # free[c][j]
Exclusive == \A o \in Obj : st[o] = "live" => o \notin Range(free[Cls(o)])
NoBad == bad = {}
Quiescent == (\A g \in Gor : mode[g] = "idle" /\ calls[g] = MaxCalls)
\* design extra (not one of the listed properties): without panics nothing leaks - whenever every goroutine is idle,
\* every validator that was ever borrowed is back in its pool or has been dropped by a GC (no object stays "live")
NoLeakWhenIdle == (~AllowPanic /\ \A g \in Gor : mode[g] = "idle") => \A o \in Obj : st[o] # "live"
=============================================================================
