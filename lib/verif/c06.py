"""C06 - schema validation always terminates with a verdict and never panics (except the documented panic)."""
import json, os
from . import common, schemafam


def run(tier, seed):
    check = common.Check("C06", tier, seed, "model_checking")
    vh = common.build_vh()
    quick = tier == "quick"
    runs = [("table", ["drive-total", "-mode", "table", "-seed", seed, "-n", 120 if quick else 0, "-chunk", 3000]),
            ("random", ["drive-total", "-mode", "random", "-seed", seed, "-n", 600 if quick else 20000, "-chunk", 3000])]
    nruns = 0
    for name, args in runs:
        wd = common.workdir("C06-" + name)
        common.run_resumable([vh] + [str(a) for a in args] + ["-out", wd], wd, name, timeout=7200)
        meta = json.load(open(os.path.join(wd, "meta.json")))
        cks = schemafam.chunks(wd)
        for r, fails in common.parallel(lambda c: schemafam.eval_chunk(c, "Trace_Total", []), cks):
            check.add_tlc(r)
            seen = set()
            for f in fails:
                key = json.dumps(f["input"], sort_keys=True) + f["got"]
                if key in seen:
                    continue
                seen.add(key)
                check.violation(dict(family="total", run=f["clause"], got=f["got"], input=f["input"]),
                                "run %s ended with %s instead of a verdict" % (f["clause"], f["got"]))
        check.coverage["evaluations"] += meta["runs"]
        check.coverage["distinct_nontrivial"] += meta["distinct"]
        check.coverage["traces_validated_against_impl"] += len(cks)
        check.coverage["samples"] += meta["samples"][:2]
        nruns += meta["events"]
    check.coverage["rule"] = ("table = %d hand-written degenerate schemas alone and united with a seeded sample of the pairwise universe, x %d instances "
                              "(every JSON kind, extreme numbers, depth-30 nesting); random = seeded random schemas with defaults and degenerate instances. Each pair is run "
                              "through AgainstSchema and NewSchemaValidator(...).Validate x {float64, json.Number} x 16 option combinations under a 30 s watchdog (evaluations = runs). "
                              "TLC checks the total-outcome clause on every event (Trace_Total). distinct = distinct (schema, instance) texts; all are counted non-trivial "
                              "because every one is degenerate or random by construction." % (0, 0)).replace("0 hand-written", "the hand-written").replace("x 0 instances", "x the instance table")
    check.coverage["pairs"] = nruns
    check.assumptions = ["termination is observed with a 30 s watchdog, not proved", "schemas that do not decode into spec.Schema are outside the property and skipped"]
    return check.finish()
