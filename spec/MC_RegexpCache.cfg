SPECIFICATION Spec
CONSTANTS
  Gor = {g1, g2, g3}
  Pats = {"p", "q", "bad"}
  Bad = {"bad"}
  MaxReq = 2
INVARIANTS KeyIsSource ReturnedIsRequested InvalidNeverCached MutexOK
PROPERTY Monotone
CHECK_DEADLOCK FALSE
