----------------------------- MODULE SimpleSchema -----------------------------
(***************************************************************************)
(* C16: Swagger "simple schema" semantics of non-body parameters, headers   *)
(* and their items, over typed Go values (encoding of Helpers.tla; strings  *)
(* additionally carry x = percent-encoded text, m = ids of the event's      *)
(* patterns they match, fm = formats they satisfy).                         *)
(*                                                                          *)
(* A definition d is [has, type, format, enum, maximum, ..., items].        *)
(* A value is valid iff it has the declared type and meets every declared   *)
(* constraint at every nesting level of its items; nil is not validated.    *)
(*                                                                          *)
(* Named deviations (KNOWN-FINDINGS.txt):                                   *)
(*  HeaderRequiredEmpty    a header of type string rejects "" ("required")  *)
(*  ItemsFormatNotAsserted a string format declared on items is never       *)
(*                         asserted (the format validator consults the      *)
(*                         parameter / header, not the items)               *)
(*  FormatSkipsType        with a format declared and a non-numeric type,   *)
(*                         string and slice values skip the type check      *)
(***************************************************************************)
EXTENDS Helpers

DHas(d, k) == \E j \in 1..Len(d.has) : d.has[j] = k
InSeq(x, q) == \E j \in 1..Len(q) : q[j] = x
IntKinds == {"int", "int8", "int16", "int32", "int64", "uint", "uint8", "uint16", "uint32", "uint64"}

P2(n) == CASE n = 31 -> [s |-> 1, d |-> <<2,1,4,7,4,8,3,6,4,8>>, f |-> 0]
           [] n = 32 -> [s |-> 1, d |-> <<4,2,9,4,9,6,7,2,9,6>>, f |-> 0]
           [] n = 63 -> [s |-> 1, d |-> <<9,2,2,3,3,7,2,0,3,6,8,5,4,7,7,5,8,0,8>>, f |-> 0]
           [] n = 64 -> [s |-> 1, d |-> <<1,8,4,4,6,7,4,4,0,7,3,7,0,9,5,5,1,6,1,6>>, f |-> 0]
InFormatRange(fmt, x) ==
  CASE fmt = "int32"  -> Le(Neg(P2(31)), x) /\ Lt(x, P2(31))
    [] fmt = "int64"  -> Le(Neg(P2(63)), x) /\ Lt(x, P2(63))
    [] fmt = "uint32" -> x.s >= 0 /\ Lt(x, P2(32))
    [] fmt = "uint64" -> x.s >= 0 /\ Lt(x, P2(64))
    [] OTHER -> TRUE

Fmt(d) == IF DHas(d, "format") THEN d.format ELSE ""
HasType(d, v) ==
  CASE d.type = "string"  -> v.k = "string"
    [] d.type = "boolean" -> v.k = "bool"
    [] d.type = "number"  -> IsNum(v)
    [] d.type = "integer" -> IsNum(v) /\ (v.k \in IntKinds \/ IsInt(v.num)) /\ InFormatRange(IF Fmt(d) = "" THEN "int64" ELSE Fmt(d), v.num)
    [] d.type = "array"   -> v.k = "slice"
    [] OTHER -> FALSE

\* tagged JSON value (enum member) against a typed Go value
RECURSIVE JEq(_, _)
JEq(j, v) ==
  CASE j.t = "num"  -> IsNum(v) /\ Eq(j, v.num)
    [] j.t = "str"  -> v.k = "string" /\ j.x = v.x
    [] j.t = "bool" -> v.k = "bool" /\ j.b = v.v
    [] j.t = "arr"  -> v.k = "slice" /\ Len(j.v) = Len(v.e) /\ \A q \in 1..Len(j.v) : JEq(j.v[q], v.e[q])
    [] OTHER -> FALSE

RECURSIVE SimpleValid(_, _, _, _, _, _)
\* dev: deviations; known: formats known to the registry; entry: "param" | "header"; level: 0 = the parameter/header itself
SimpleValid(dev, known, entry, level, d, v) ==
  LET skipType == "FormatSkipsType" \in dev /\ Fmt(d) # "" /\ d.type \notin {"number", "integer"} /\ v.k \in {"string", "slice"}
      assertFmt == ~("ItemsFormatNotAsserted" \in dev /\ level > 0)
  IN
  /\ (skipType \/ HasType(d, v))
  /\ ~("HeaderRequiredEmpty" \in dev /\ entry = "header" /\ level = 0 /\ v.k = "string" /\ v.b = <<>>)
  /\ DHas(d, "enum") => \E j \in 1..Len(d.enum) : JEq(d.enum[j], v)
  /\ IsNum(v) =>
       /\ DHas(d, "maximum") => IF DHas(d, "exclusiveMaximum") /\ d.exclusiveMaximum THEN Lt(v.num, d.maximum) ELSE Le(v.num, d.maximum)
       /\ DHas(d, "minimum") => IF DHas(d, "exclusiveMinimum") /\ d.exclusiveMinimum THEN Lt(d.minimum, v.num) ELSE Le(d.minimum, v.num)
       /\ DHas(d, "multipleOf") => IsMultiple(v.num, d.multipleOf)
  /\ v.k = "string" =>
       /\ DHas(d, "maxLength") => RuneCount(v.b) <= d.maxLength
       /\ DHas(d, "minLength") => RuneCount(v.b) >= d.minLength
       /\ DHas(d, "pattern") => InSeq(d.pattern, v.m)
       /\ (assertFmt /\ Fmt(d) \in known) => InSeq(Fmt(d), v.fm)
  /\ v.k = "slice" =>
       /\ DHas(d, "maxItems") => Len(v.e) <= d.maxItems
       /\ DHas(d, "minItems") => Len(v.e) >= d.minItems
       /\ (DHas(d, "uniqueItems") /\ d.uniqueItems) => \A a, b \in 1..Len(v.e) : a < b =>
              ~(IF "UniqueItemsCrossType" \in dev THEN StrictEq(v.e[a], v.e[b]) ELSE DeepEq(v.e[a], v.e[b]))   \* C14's finding
       /\ DHas(d, "items") => \A j \in 1..Len(v.e) : SimpleValid(dev, known, entry, level + 1, d.items, v.e[j])
=============================================================================
