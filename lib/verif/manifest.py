"""Generates MANIFEST.json from the table below (single source of truth for what is claimed)."""
import json, os, sys
ROOT = os.path.dirname(os.path.dirname(os.path.dirname(os.path.abspath(__file__))))

HOOK_COMMITS = ["ef43c6f"]

CHECKS = {
    "C01": dict(level="model_checking", design="DESIGN.md §6 C01, §3.1 JsonSchema, §7",
                technique="TLA+ operator JsonSchema!Valid evaluated by TLC on events recorded from both entry points (trace validation, pairwise keyword universe + seeded random compositions)",
                text="Every recorded (schema, instance, verdict-of-both-entry-points) event is checked by TLC against an independent TLA+ definition of draft-4 validity "
                     "(exact decimal arithmetic). The quick tier covers a seeded sample of the pairwise keyword universe and ~16k random compositions; the thorough tier the "
                     "whole universe and ~500k random events to depth 5. Known deviations are modelled as named operators and honoured only while their witness still fails.",
                note="Trusted: Go regexp / strfmt registry answers and code-point counts supplied as facts; the tagged encoder; TLC. Bounded: numbers <= 15 significant digits, "
                     "small alphabets of keys/strings/patterns, nesting depth <= 5."),
}

CHECKS["C06"] = dict(level="model_checking", design="DESIGN.md §6 C06",
    technique="TLA+ total-outcome clause (Trace_Total) checked by TLC on events recorded from the real entry points over a degenerate-schema universe x carriers x option combinations, with watchdog",
    text="Each event lists the outcome of up to 60 runs (2 entry points x float64/json.Number x 16 option combinations) of one (schema, instance) pair; TLC checks that every outcome is a "
         "verdict and that the documented panic occurs only for schemas with an unresolvable reference (Resolvable is computed in the spec from the schema's reference structure). "
         "The spec's contribution is this post-condition; detection rests on the degenerate universe.",
    note="Termination is a 5 s watchdog. Schemas that do not decode are skipped. The reference-structure encoder is trusted.")

CHECKS["C17"] = dict(level="model_checking", design="DESIGN.md §6 C17, Appendix A (error names)",
    technique="TLA+ operators AllowedNames / OffenderNames (SchemaErrors.tla) evaluated by TLC on error lists recorded from both entry points (trace validation)",
    text="For each recorded (schema, instance, root path) the spec computes the set of names an error may carry and, for the nesting class, the set of offending members; "
         "TLC checks every recorded error name, the 422 composite, message-set equality between the one-shot error and the result, absence of duplicates and verdict/error consistency.",
    note="Location accuracy is only claimed (and checked) for properties, patternProperties, additionalProperties, tuple items and additionalItems; under single-schema items index segments may be missing. "
         "Trusted: harness facts, percent-encoding of names.")

CHECKS["C20"] = dict(level="model_checking", design="DESIGN.md §6 C20, §3.1 Result",
    technique="explicit TLA+ state machine Result.tla: exhaustive TLC check of its invariants/action properties, TLC-generated behaviours replayed into validate.Result, recorded operation traces validated by Trace_Result.tla",
    text="Result.tla models the accumulator with one action per public method. TLC checks NoDupMsgs, ValidIffNoErrors, prefix preservation, additivity, frame conditions and first-occurrence order "
         "on the complete bounded operation graph; the same operators generate behaviours that are stepped through the real objects (state compared after every step, redeemed results poisoned so "
         "aliasing shows) and validate operation traces recorded from the code.",
    note="Bounded: 2-3 results, 2-3 messages in the exhaustive/generated part; 5 results, 6 messages in recorded traces. Trusted: projection function, TLC.")

CHECKS["C15"] = dict(level="model_checking", design="DESIGN.md §6 C15, §3.1 RegexpCache, §4.2 schedules",
    technique="explicit TLA+ state machine RegexpCache.tla: exhaustive interleavings by TLC; TLC-generated schedules replayed on real goroutines through gate hooks; recorded concurrent uses validated by Trace_RegexpCache.tla",
    text="The cache protocol of rexp.go is modelled step by step (lookup, compile, lock, reload, store, unlock) and checked for all interleavings of 3 goroutines (KeyIsSource, ReturnedIsRequested, "
         "InvalidNeverCached). Schedules produced by TLC are forced onto real goroutines with the verifGate hooks, with near-colliding real patterns substituted; every returned answer is compared with "
         "Go's regexp compiled from the requested pattern. The verdict depends only on returned answers and on KeyIsSource of the real cache.",
    note="Trusted: Go regexp as fact oracle; gate hooks mark the protocol steps. A tree that changes the protocol is still checked through returned answers (schedule marked unreplayable).")

CHECKS["C04"] = dict(level="model_checking", design="DESIGN.md §6 C04, §3.1 Pools/ValidatorTree, §2.2 poisoning, §4.3",
    technique="explicit TLA+ life-cycle model ValidatorTree.tla checked exhaustively by TLC; TLC-enumerated call histories executed on the real pools with redeemed objects poisoned; every call outcome compared with its alone/fresh reference; borrow/redeem streams of both pool builds validated by Trace_Pools.tla",
    text="The borrow/construct/use/redeem protocol is model-checked for all behaviours of 1-2 goroutines with every early exit and arbitrary sync.Pool behaviour (NoDup, Exclusive, no use after redeem / stale read). "
         "Bound to the code by (a) executing every call sequence of length <= 2 (quick) / 3 (thorough) and long seeded histories with poisoning on, requiring each outcome to equal the same call alone with "
         "nothing pooled, and (b) validating the recorded pool events of the production pools (redeem hook; borrow inferred from the poison image) and of the debug pools (borrow + redeem hooks) against the monitor.",
    note="Reference outcome = same code in fresh mode (redeem hook drops every object). sync.Pool scheduling is not controllable; reuse maximised (GC off, 1 OS thread) and also run with 4 threads. Poisoner is trusted.")

CHECKS["C11"] = dict(level="model_checking", design="DESIGN.md §6 C11, §3.1 ValidatorTree (Panic/Unwind)",
    technique="ValidatorTree.tla with Panic/Unwind actions checked exhaustively by TLC (NoDup after every unwind point; the pre-fix ordering must reproduce the double redeem); (workload, k) panic histories executed on the real pools with poisoning, outcomes compared with alone/fresh references, pool streams validated by Trace_Pools.tla",
    text="The model explores a panic at every user-code point of every validator-tree shape followed by frame-by-frame unwinding and further calls. The code is bound by injecting a panic at the k-th "
         "format-checker invocation for every k a workload reaches, recovering, and requiring every later validation to return its alone/fresh outcome and the pool monitor's invariants to hold.",
    note="Only format-checker panics are injected on the real code (the documented invalid-schema panic is explored in the model and by C06's runs). Same trusted base as C04.")

CHECKS["C05"] = dict(level="model_checking", design="DESIGN.md §6 C05, §8",
    technique="TLC-checked ownership models (ValidatorTree with 2 goroutines, RegexpCache with 3, Options with 2 setters and 2 readers incl. two must-fail variants); concurrent drivers on the real code with outcomes compared to alone/fresh references and the merged pool event stream validated by Trace_Pools.tla; Go race detector as access-level observer of the same drivers",
    text="Independence and exclusive ownership are decided by the specification: all interleavings of the pool protocol and the regexp cache are model-checked, and every concurrent execution's pool events "
         "(ordered by tickets taken at the hooks) must satisfy the monitor while every call returns its alone outcome. Data-race freedom is observed by the race detector on the same drivers, with redeemed objects "
         "poisoned so that a use after redeem is deterministic.",
    note="TLA+ has no notion of the Go memory model: the race half is instrumentation by the race detector (DESIGN.md §8). Reports outside package validate do not affect the verdict.")

CHECKS["C08"] = dict(level="model_checking", design="DESIGN.md §6 C08, §3.1 Api (long-lived handles)",
    technique="TLC-enumerated value sequences driven through one long-lived validator per definition; each call recorded and validated by the TLA+ monitor Trace_Api.tla (Stateless: equals a freshly built validator; Repeatable: equals memo[h][x])",
    text="For seeded schema / parameter / header definitions, every value-index sequence of length <= 2 (quick) / 3 (thorough) enumerated by TLC and a long seeded sequence are run on a single validator built without "
         "recycling; Trace_Api.tla keeps memo[h][x] and requires every outcome to equal both the fresh-validator outcome and the first outcome for that value.",
    note="Outcome = verdict + message set (digest). The spec's contribution is the memo/stateless monitor; detection rests on the definitions and value tables (nested arrays, recovered format-checker panics).")

CHECKS["C12"] = dict(level="exploration", design="DESIGN.md §6 C12, §3.1 Api (frame conditions)",
    technique="frame conditions (UNCHANGED inputs) of the Api specification checked by TLC (Trace_Frame.tla) on deep before/after snapshots recorded around every public call",
    text="Exploration, spec-checked: every recorded call carries the tagged deep snapshot of each input before and after; the TLA+ monitor requires equality and computes the differing JSON pointer. "
         "The specification contributes only the frame condition; the detection power is the generator (defaults, duplicated required names, unsorted arrays under uniqueItems, documents with defaults/examples/refs).",
    note="Snapshots via encoding/json; spec.Schema round-trips through its own marshaller. Self-referential definitions are excluded as the property says.")

CHECKS["C18"] = dict(level="model_checking", design="DESIGN.md §6 C18/C19, §3.1 Post",
    technique="TLA+ predicate Post!Defaulted (applicable schemata through properties/allOf/selected anyOf-oneOf alternative, existential over selections) evaluated by TLC on instances recorded after post.ApplyDefaults",
    text="For every recorded valid (schema, instance) pair the instance after validation + ApplyDefaults must be an acceptable result: present members untouched, absent members with an applicable default filled with "
         "one of the applicable defaults, nothing else added, recursively through objects and array elements present in the data.",
    note="Existential over the valid anyOf/oneOf alternatives (any may be the selected one). Defaults behind a $ref/allOf of a property are tolerated. Trusted: harness facts, encoder.")
CHECKS["C19"] = dict(level="model_checking", design="DESIGN.md §6 C18/C19, §3.1 Post",
    technique="TLA+ predicate Post!Pruned (described = declared property / matching pattern property / schema-valued additionalProperties of an applicable schema) evaluated by TLC on instances recorded after post.Prune, plus idempotence",
    text="For every recorded valid pair the instance after validation + Prune must keep exactly the described members, unchanged, recursively inside nested objects and array elements; without anyOf/oneOf, "
         "validating and pruning the pruned data again must change nothing.",
    note="Existential over the valid anyOf/oneOf alternatives. Trusted: harness facts, encoder.")

CHECKS["C13"] = dict(level="model_checking", design="DESIGN.md §6 C13, §3.1 Numeric/BigDec, §7",
    technique="TLA+ operators Numeric!Expected (exact decimal arithmetic on digit sequences) evaluated by TLC on numeric checks recorded through 5 entry points x 13 Go kinds (trace validation over a boundary table and seeded random decimals)",
    text="Every recorded (entry point, kind, value, bound, exclusive) event is compared by TLC with exact arithmetic; the three known deviations are named operators honoured only while their witness still fails.",
    note="Trusted: representability filter (big.Rat) and encoder. Bounded: |x| <= 2^53, <= 15 significant digits, <= 6 fractional digits for factors.")

CHECKS["C14"] = dict(level="model_checking", design="DESIGN.md §6 C14, §3.1 Helpers/Utf8/Values",
    technique="textbook definitions in TLA+ (Helpers.tla: DeepEq with cross-type numeric equality, IsZeroValue, request-context rule; Utf8.tla: rune counting on raw bytes) evaluated by TLC on helper calls recorded over per-helper bounded universes",
    text="Each recorded helper call (made twice, arguments snapshotted) is compared by TLC with the helper's definition; string lengths are recomputed by the spec's own UTF-8 decoder from raw bytes, "
         "including invalid encodings. Four known deviations of Enum/UniqueItems are named operators honoured only while their witness still fails.",
    note="Trusted: typed-value encoder (reflection), regexp/registry facts, strings.ToLower for case folding.")

CHECKS["C16"] = dict(level="model_checking", design="DESIGN.md §6 C16, Appendix A (simple schemas)",
    technique="TLA+ operator SimpleSchema!SimpleValid (typed Go values, recursion through items) evaluated by TLC on validations recorded through NewParamValidator / NewHeaderValidator (trace validation, seeded definitions x typed values)",
    text="Each recorded (definition, typed value, entry point, recycling) event is compared by TLC with the simple-schema semantics: declared type (incl. integer formats' ranges), enum, numeric, string and array "
         "constraints at every items level; nil is not validated. Three known deviations are named operators honoured while their witness fails.",
    note="Bounds are integers (C13 owns fractional bounds and float tolerances). Trusted: typed-value encoder, regexp/registry facts.")

CHECKS["C07"] = dict(level="exploration", design="DESIGN.md §6 C07, §3.1 SpecValidator",
    technique="explicit TLA+ phase machine SpecValidator.tla (model-checked: every run returns) bound by trace validation: phase traces recorded through the verifPhase hook over an edit universe of loadable documents must be runs of the machine ending with return (Trace_SpecRun.tla)",
    text="Exploration, spec-checked. Every loadable edited document is validated in both modes; TLC checks that the run returned two results and that the recorded phase list is a path of the phase machine "
         "(order, early-stop guards, errors never retracted).",
    note="Detection power is the edit universe (all single edits of the bases in the thorough tier). 60 s watchdog for termination.")

CHECKS["C10"] = dict(level="model_checking", design="DESIGN.md §6 C10, §3.1 SpecValidator (two-run product)",
    technique="SpecValidator.tla two-run product checked exhaustively by TLC (Monotone, WarningsNeverInvalidate, ReturnedWarningsAreAttached, SameWhenValid, AlwaysReturns); repeated validations of each document in both modes recorded and validated by Trace_SpecRun.tla (memo first[doc, mode], subset, phase runs)",
    text="The early-stop policy is model-checked as a product of a stopping and a continuing run over all per-phase contributions. Real runs are bound to it: each document is validated several times per mode across processes; "
         "TLC requires identical message sets on repetition, errors(stop) subset of errors(continue), validity = no error, returned warnings = attached warnings, and phase traces that are runs of the machine.",
    note="Documents with several simultaneous offenders are generated on purpose. Messages compared by text. Serialisation variants (YAML, member order) are exercised only through the fixtures that are YAML.")

CHECKS["C02"] = dict(level="model_checking", design="DESIGN.md §6 C02",
    technique="TLA+ operator JsonSchema!Valid evaluated by TLC with the complete official Swagger 2.0 schema (as a tagged constant bundled at run time) on the raw text of every document the real spec validator accepted (trace validation over an edit universe)",
    text="Accepted => schema-valid: each run of the spec validator on an edited document is recorded with the tagged raw document; TLC evaluates the ~75-definition Swagger schema with the same independent draft-4 operator as C01.",
    note="Only the stated direction is checked. Known: a null under anyOf/oneOf/not positions is accepted (C01's NullEarlyExit), listed as an open finding with a witness document.")

CHECKS["C09"] = dict(level="model_checking", design="DESIGN.md §6 C09, §3.1 Visited",
    technique="Visited.tla (the visited-path heuristic transcribed character by character) model-checked by TLC over all small definition trees; D0/D1 differential runs over a location x name x value carrier universe judged by the TLA+ operators Valid / SimpleValid (Trace_Carrier.tla)",
    text="Which carriers are reached is analysed exhaustively at design level (Visited.tla); how a value is judged is decided by the draft-4 / simple-schema operators. Every carrier of the universe is bound to the code by validating "
         "a clean document with and without the value and checking: accepted => nothing new; rejected default => an error; rejected example => a new warning and no error.",
    note="Message text is never inspected. The known suffix-heuristic skip is an open finding whose deviation operator is the transcribed heuristic applied to the walker's paths.")

CHECKS["C03"] = dict(level="model_checking", design="DESIGN.md §6 C03, Appendix A (extra rules)",
    technique="TLA+ module SwaggerRules.tla (one predicate per documented extra rule over an abstract document) evaluated by TLC on generated documents and their rule-breaking / rule-preserving edits; the rendered documents are validated by the real spec validator under the four option combinations (trace validation)",
    text="Errors are expected exactly when SwaggerRules!Broken is non-empty: every unedited and rule-preservingly edited document must be accepted, every rule-breaking edit must yield at least one error, in both "
         "continue-on-errors modes, and path overlap only under StrictPathParamUniqueness.",
    note="Only the verdict is compared. The abstract-document renderer is trusted. Documents stay within 'assembled from well-formed parts' (they satisfy the Swagger schema by construction).")

NOT_YET = {}


def main():
    props = [json.loads(l) for l in open(os.path.join(ROOT, "properties.jsonl"))]
    checks, na = [], []
    for p in props:
        pid = p["id"]
        c = CHECKS.get(pid)
        if not c:
            na.append(dict(property_id=pid, reason=NOT_YET.get(pid, "check not built yet in this round (planned, see DESIGN.md §6 %s); not claimed" % pid)))
            continue
        checks.append(dict(property_id=pid, quick_cmd="bin/verif check %s quick" % pid, thorough_cmd="bin/verif check %s thorough" % pid,
                           evidence_file="evidence/%s.json" % pid, replay_cmd_template="bin/verif replay {path}", engine="tlc+vh",
                           level_claimed=dict(category=c["level"], text=c["text"], design_ref=c["design"]), level_note=c["note"], technique=c["technique"]))
    m = dict(version=1, setup_cmd="bin/verif setup",
             hooks=dict(guard="verif", enable="go build -tags verif (harness module replaces github.com/go-openapi/validate => /repo); -tags 'verif validatedebug' for the debug pools",
                        baseline_off_cmd="bin/baseline-off", source_commits=HOOK_COMMITS, add_only=True),
             engines=[dict(name="tlc+vh", path="bin/verif", serves_properties=sorted(CHECKS),
                           kind_free_text="python driver; TLC 1.8 evaluating the TLA+ modules of spec/ on traces recorded by the Go harness (harness/cmd/vh) "
                                          "from the real code, and on exhaustive configurations of the state-machine modules; TLC-generated behaviours replayed into the code")],
             checks=checks, not_applicable=na,
             notes="See DESIGN.md. KNOWN-FINDINGS.txt lists fixed and open genuine defects; seeded/ holds property-breaking changes used to test the checks.")
    json.dump(m, open(os.path.join(ROOT, "MANIFEST.json"), "w"), indent=1)
    print("MANIFEST.json: %d checks, %d not applicable" % (len(checks), len(na)))


if __name__ == "__main__":
    main()
