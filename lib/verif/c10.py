"""C10 - spec validation is deterministic, monotone, and keeps warnings apart."""
import json, os
from . import common, specfam


def run(tier, seed):
    check = common.Check("C10", tier, seed, "model_checking")
    vh = common.build_vh()
    quick = tier == "quick"
    # the two-run product of the phase machine: Monotone, WarningsNeverInvalidate, ReturnedWarningsAreAttached, SameWhenValid, AlwaysReturns
    wd = common.workdir("C10-mc")
    r = common.tlc_or_inconclusive(wd, "SpecValidator", open(common.SPEC + "/MC_SpecValidator.cfg").read(), timeout=1800, workers=8, heap="6g")
    if r["violated"]:
        raise common.Inconclusive("SpecValidator.tla violates %s (spec bug)" % r["violated"])
    check.add_tlc(r)
    check.coverage["exhaustive_model"] = dict(distinct_states=r["distinct"], transitions=r["states"], depth=r["depth"])
    # documents with SEVERAL simultaneous rule violations in different definitions / operations (where a loop that returns on
    # its first offender meets Go's randomised map iteration), validated repeatedly in both modes
    multi = os.path.join(wd, "multi.ndjson")
    common.run([vh, "gen-multibad", "-seed", str(seed), "-n", str(12 if quick else 200), "-out", multi])
    args = ["-seed", seed, "-bases", 3 if quick else 12, "-edits", 12 if quick else 40, "-double", 0.5, "-repeat", 6 if quick else 8]   # measured: all fixtures x 10 repetitions ran > 1 h
    # open finding FirstFoundUnresolved: honoured (messages compared up to the reference named) only while its witness still flips
    known = common.Known().devs("C10")
    if "FirstFoundUnresolved" in known:
        wdoc = os.path.join(wd, "witness.ndjson")
        with open(wdoc, "w") as f:
            f.write(json.dumps(json.load(open(known["FirstFoundUnresolved"]["witness"]))["doc"]) + "\n")
        wf = specfam.run_spec(check, vh, "witnessrun", ["-seed", seed, "-bases", -1, "-repeat", 24], ["C10"], [], shards=1, docs_file=wdoc)
        if any(f["input"].get("edit") == "(given)" and f["clause"].startswith("Deterministic") for f in wf):
            check.known("FirstFoundUnresolved", known["FirstFoundUnresolved"]["text"])
            args += ["-normalize-first-found"]
        else:
            common.log("[known] witness of FirstFoundUnresolved no longer flips")
    fails = specfam.run_spec(check, vh, "repeat", args, ["C10", "C07"], [], shards=8 if quick else 14, docs_file=multi)
    specfam.report(check, fails, {})
    check.coverage["rule"] = ("documents = base documents, edited documents (50%% double edits) and generated documents with several simultaneous rule violations in different definitions and "
                              "operations (case-twin names, several undefined required properties, several duplicate operation ids, overlapping paths, circular ancestries next to other offenders); each is "
                              "validated %d times per mode, interleaved with the other documents, in 8+ processes. Trace_SpecRun.tla keeps first[doc, mode] and checks Deterministic, Monotone (errors(stop) "
                              "subset of errors(continue)), validity = absence of errors, returned warnings = attached warnings, and that every phase trace is a run of SpecValidator.tla. distinct = distinct "
                              "documents that load." % (6 if quick else 8))
    check.assumptions = ["message sets are compared by interned message text", "circular-ancestry messages are compared verbatim (no document of the quick tier has more than one cycle member to name)"]
    return check.finish()
