"""C09 - spec defaults and examples are judged exactly as their schema judges them."""
import json, os
from . import common, schemafam
from .common import Inconclusive


def run(tier, seed):
    check = common.Check("C09", tier, seed, "model_checking")
    vh = common.build_vh()
    quick = tier == "quick"
    known = common.Known().devs("C09")
    # witness of the open finding: definitions.a.a with a rejected default
    live = {}
    if "VisitedSuffixSkip" in known:
        wd = common.workdir("C09-witness")
        common.run([vh, "drive-carrier", "-only", "property-depth1-unreferenced", "-name", "a/a", "-out", wd])
        r, fails = schemafam.eval_chunk(schemafam.chunks(wd)[0], "Trace_Carrier", ["VisitedSuffixSkip"])
        check.add_tlc(r)
        if any(f["dev"] == "VisitedSuffixSkip" for f in fails):
            live["VisitedSuffixSkip"] = known["VisitedSuffixSkip"]
            check.known("VisitedSuffixSkip", known["VisitedSuffixSkip"]["text"])
    # design level: the visited heuristic over every definition tree of depth <= 2 with names {a, b, a.a}
    wd = common.workdir("C09-visited")
    r = common.tlc(wd, "Visited", "SPECIFICATION Spec\nINVARIANTS EveryCarrierVisited NoNilResult\nCHECK_DEADLOCK FALSE\n", timeout=600, workers=4)
    if r["timeout"] or r["error"] and not r["violated"]:
        raise Inconclusive("Visited.tla failed:\n" + r["out"][-1500:])
    if r["violated"]:
        if not live:
            raise Inconclusive("Visited.tla reports %s although no finding about the visited heuristic is open: the transcription and the code disagree" % r["violated"])
        check.coverage["design_model"] = "Visited.tla: %s violated (the heuristic skips a schema whose path repeats a name) - consistent with the open finding VisitedSuffixSkip" % r["violated"]
    else:
        check.add_tlc(r)
        check.coverage["design_model"] = "Visited.tla: EveryCarrierVisited and NoNilResult hold on %d trees" % r["distinct"]
    # code -> spec: the carrier universe, D0 / D1 differential, judged by the specification
    base = common.workdir("C09-carriers")
    shards = 8 if quick else 14
    n = 330 if quick else 0

    def shard(k):
        wdk = os.path.join(base, "shard%d" % k)
        common.run([vh, "drive-carrier", "-seed", str(seed), "-n", str(n), "-shard", "%d/%d" % (k, shards), "-out", wdk], timeout=3 * 3600)
        meta = json.load(open(os.path.join(wdk, "meta.json")))
        out = []
        for c in schemafam.chunks(wdk):
            rr, fails = schemafam.eval_chunk(c, "Trace_Carrier", sorted(live))
            check.add_tlc(rr)
            out += fails
        return meta, out
    allfails = []
    for meta, fails in common.parallel(shard, list(range(shards)), jobs=shards):
        check.coverage["evaluations"] += meta["runs"]
        check.coverage["distinct_nontrivial"] += meta["distinct_nontrivial"]
        check.coverage["traces_validated_against_impl"] += meta["events"]
        check.coverage["samples"] += (meta["samples"] or [])[:1]
        allfails += fails
    harness = [f for f in allfails if f.get("dev") == "harness"]
    if harness:
        raise Inconclusive("%d generated document pairs are unusable (D0 not clean), e.g. %s" % (len(harness), json.dumps(harness[0]["input"])[:500]))
    schemafam.classify(check, allfails, live)
    check.coverage["rule"] = ("carrier universe: location kinds {definition, property at depth 1-3 (also named like its definition), items, additionalProperties, allOf member, definition reached through $ref, "
                              "body-parameter schema, response schema and a property of it, response examples[application/json], simple parameter, parameter items (2 levels), header, header items} x names "
                              "{a, b, a.a, b.b, default} x 6 judging schemas x {default, example} x {a value the schema accepts, one it rejects}. For each, the clean document D0 and D1 = D0 + the value are "
                              "validated (continue mode; a quarter also in stop mode); TLC decides the judgement with JsonSchema!Valid / SimpleSchema!SimpleValid and checks the D0/D1 differential without "
                              "looking at message text. Quick: a seeded sample of %s carriers; thorough: all. non-trivial = distinct carriers." % (n or "all"))
    check.coverage["open_deviations_honoured"] = sorted(live)
    check.assumptions = ["the D0/D1 differential attributes every new error/warning to the planted value (D0 is required to be clean)", "walker paths (vpaths) of a carrier are supplied by the generator"]
    return check.finish()
