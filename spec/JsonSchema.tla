----------------------------- MODULE JsonSchema -----------------------------
(***************************************************************************)
(* JSON Schema draft 4 validation semantics, over the tagged encoding of    *)
(* schemas and instances (DESIGN.md 3.2).  This is the oracle of C01, C02,  *)
(* C06, C17, C18, C19: an independent definition of "the instance is valid  *)
(* against the schema", evaluated by TLC on inputs recorded from the real   *)
(* code and on enumerated universes.                                        *)
(*                                                                          *)
(* Facts TLA+ cannot compute are part of the encoding: for every string its *)
(* code-point count n, the ids m of the event's patterns it matches, and    *)
(* the formats fm it satisfies (DESIGN.md 3.3).                              *)
(*                                                                          *)
(* dev is a set of named deviations: what the implementation is KNOWN to do *)
(* differently (KNOWN-FINDINGS.txt).  Valid(.., {}, ..) is draft 4.          *)
(***************************************************************************)
EXTENDS Integers, Sequences, FiniteSets, BigDec

Has(s, k) == \E j \in 1..Len(s.has) : s.has[j] = k
InSeq(x, q) == \E j \in 1..Len(q) : q[j] = x
SeqToSet(q) == {q[j] : j \in 1..Len(q)}

RECURSIVE JsonEq(_,_)
JsonEq(a, b) ==
  /\ a.t = b.t
  /\ CASE a.t = "null" -> TRUE
       [] a.t = "bool" -> a.b = b.b
       [] a.t = "num"  -> Cmp(a, b) = 0
       [] a.t = "str"  -> a.x = b.x
       [] a.t = "arr"  -> Len(a.v) = Len(b.v) /\ \A j \in 1..Len(a.v) : JsonEq(a.v[j], b.v[j])
       [] a.t = "obj"  -> /\ Len(a.k) = Len(b.k)
                          /\ \A j \in 1..Len(a.k) : a.k[j].x = b.k[j].x /\ JsonEq(a.v[j], b.v[j])

TypeMatch(ty, i) ==
  CASE ty = "null"    -> i.t = "null"
    [] ty = "boolean" -> i.t = "bool"
    [] ty = "number"  -> i.t = "num"
    [] ty = "integer" -> i.t = "num" /\ IsInt(i)
    [] ty = "string"  -> i.t = "str"
    [] ty = "array"   -> i.t = "arr"
    [] ty = "object"  -> i.t = "obj"
    [] OTHER -> FALSE

HasDef(root, name) == \E j \in 1..Len(root.dk) : root.dk[j] = name
Deref(root, name) == LET j == CHOOSE j \in 1..Len(root.dk) : root.dk[j] = name IN root.dv[j]

KeyIndex(i, kx) == IF \E m \in 1..Len(i.k) : i.k[m].x = kx
                   THEN CHOOSE m \in 1..Len(i.k) : i.k[m].x = kx ELSE 0
HasKey(i, kx) == KeyIndex(i, kx) # 0

\* multipleOf: the implementation computes in float64 with a relative tolerance of 1e-9 and an
\* upper guard of 2^53-1 on the quotient.  MultRegion is the (generous) region of (x, f) in which
\* deviation "MultipleOfFloat" accepts either verdict; outside it the verdict must be exact.
MultRegion(x, f) ==
  /\ x.s # 0 /\ f.s = 1
  /\ LET sc == Max(x.f, f.f)
         X  == ScaledD(x, sc)
         F  == ScaledD(f, sc)
         R  == StripZ(RemD(X, F))
         R2 == IF R = <<>> THEN <<>> ELSE StripZ(SubD(F, R))
         m  == IF CmpD(R, R2) <= 0 THEN R ELSE R2        \* distance to the nearest multiple
     IN \/ (R # <<>> /\ CmpD(m \o Zeros(8), X) < 0)        \* non-multiple within relative 1e-8
        \/ CmpD(X, F \o Zeros(15)) >= 0
        \/ (R = <<>> /\ (x.f > 0 \/ f.f > 0))              \* a true multiple with fractional operands: the float quotient may land just BELOW an integer, which the tolerance does not forgive                    \* quotient beyond ~2^53

TypeOK(s, i, dev) ==
  LET plain == \E j \in 1..Len(s.type) : TypeMatch(s.type[j], i)
  IN IF /\ "FormatSkipsType" \in dev
        /\ Has(s, "format") /\ i.t \in {"str", "arr"}
        /\ ~(\E j \in 1..Len(s.type) : s.type[j] \in {"number", "integer"})
     THEN TRUE ELSE plain

EnumOK(s, i, dev) ==
  IF "EnumNull" \in dev /\ i.t = "null" THEN Len(s.enum) = 0
  ELSE \E j \in 1..Len(s.enum) : JsonEq(s.enum[j], i)

RECURSIVE Valid(_,_,_,_,_)
Valid(root, known, dev, s, i) ==
  IF Has(s, "ref") THEN Valid(root, known, dev, Deref(root, s.ref), i) ELSE
  IF "NullEarlyExit" \in dev /\ i.t = "null" THEN
     /\ Has(s,"type") => TypeOK(s, i, dev)
     /\ Has(s,"enum") => EnumOK(s, i, dev)
  ELSE
  /\ Has(s,"type") => TypeOK(s, i, dev)
  /\ Has(s,"enum") => EnumOK(s, i, dev)
  /\ i.t = "num" =>
       /\ Has(s,"maximum") => IF Has(s,"exclusiveMaximum") /\ s.exclusiveMaximum THEN Lt(i, s.maximum) ELSE Le(i, s.maximum)
       /\ Has(s,"minimum") => IF Has(s,"exclusiveMinimum") /\ s.exclusiveMinimum THEN Lt(s.minimum, i) ELSE Le(s.minimum, i)
       /\ Has(s,"multipleOf") => IsMultiple(i, s.multipleOf)
  /\ i.t = "str" =>
       /\ Has(s,"maxLength") => i.n <= s.maxLength
       /\ Has(s,"minLength") => i.n >= s.minLength
       /\ Has(s,"pattern") => InSeq(s.pattern, i.m)
       /\ (Has(s,"format") /\ s.format \in known) => InSeq(s.format, i.fm)
  /\ i.t = "arr" =>
       /\ Has(s,"items") => \A j \in 1..Len(i.v) : Valid(root, known, dev, s.items, i.v[j])
       /\ Has(s,"tuple") =>
            /\ \A j \in 1..Len(i.v) : j <= Len(s.tuple) => Valid(root, known, dev, s.tuple[j], i.v[j])
            /\ (Has(s,"addItemsB") /\ ~s.addItemsB) => Len(i.v) <= Len(s.tuple)
            /\ Has(s,"addItemsS") => \A j \in 1..Len(i.v) : j > Len(s.tuple) => Valid(root, known, dev, s.addItemsS, i.v[j])
       /\ Has(s,"maxItems") => Len(i.v) <= s.maxItems
       /\ Has(s,"minItems") => Len(i.v) >= s.minItems
       /\ (Has(s,"uniqueItems") /\ s.uniqueItems) => \A a, b \in 1..Len(i.v) : a < b => ~JsonEq(i.v[a], i.v[b])
  /\ i.t = "obj" =>
       /\ Has(s,"maxProperties") => Len(i.k) <= s.maxProperties
       /\ Has(s,"minProperties") => Len(i.k) >= s.minProperties
       /\ Has(s,"required") => \A j \in 1..Len(s.required) : HasKey(i, s.required[j])
       /\ \A m \in 1..Len(i.k) :
            LET isProp == Has(s,"pk") /\ InSeq(i.k[m].x, s.pk)
                pats   == IF Has(s,"ppk") THEN {j \in 1..Len(s.ppk) : InSeq(s.ppk[j], i.k[m].m)} ELSE {}
            IN /\ isProp => Valid(root, known, dev, s.pv[CHOOSE j \in 1..Len(s.pk) : s.pk[j] = i.k[m].x], i.v[m])
               /\ \A j \in pats : Valid(root, known, dev, s.ppv[j], i.v[m])
               /\ (~isProp /\ pats = {}) =>
                    /\ (Has(s,"addPropsB") => (s.addPropsB \/ ("SpecialMembersExempt" \in dev /\ i.k[m].x \in {"id", "%24schema"})))
                    /\ (Has(s,"addPropsS") => Valid(root, known, dev, s.addPropsS, i.v[m]))
       /\ Has(s,"depk") => \A j \in 1..Len(s.depk) : HasKey(i, s.depk[j]) =>
            IF "p" \in DOMAIN s.depv[j]
            THEN \A q \in 1..Len(s.depv[j].p) : HasKey(i, s.depv[j].p[q])
            ELSE Valid(root, known, dev, s.depv[j].s, i)
  /\ Has(s,"allOf") => \A j \in 1..Len(s.allOf) : Valid(root, known, dev, s.allOf[j], i)
  /\ Has(s,"anyOf") => \E j \in 1..Len(s.anyOf) : Valid(root, known, dev, s.anyOf[j], i)
  /\ Has(s,"oneOf") => Cardinality({j \in 1..Len(s.oneOf) : Valid(root, known, dev, s.oneOf[j], i)}) = 1
  /\ Has(s,"not") => ~Valid(root, known, dev, s["not"], i)

(***************************************************************************)
(* Structural helpers over schemas and instances.                           *)
(***************************************************************************)
\* all direct sub-schemas of s
SubSchemas(s) ==
  (IF Has(s,"items") THEN {s.items} ELSE {}) \cup
  (IF Has(s,"tuple") THEN SeqToSet(s.tuple) ELSE {}) \cup
  (IF Has(s,"addItemsS") THEN {s.addItemsS} ELSE {}) \cup
  (IF Has(s,"pk") THEN SeqToSet(s.pv) ELSE {}) \cup
  (IF Has(s,"ppk") THEN SeqToSet(s.ppv) ELSE {}) \cup
  (IF Has(s,"addPropsS") THEN {s.addPropsS} ELSE {}) \cup
  (IF Has(s,"depk") THEN {s.depv[j].s : j \in {q \in 1..Len(s.depk) : "s" \in DOMAIN s.depv[q]}} ELSE {}) \cup
  (IF Has(s,"allOf") THEN SeqToSet(s.allOf) ELSE {}) \cup
  (IF Has(s,"anyOf") THEN SeqToSet(s.anyOf) ELSE {}) \cup
  (IF Has(s,"oneOf") THEN SeqToSet(s.oneOf) ELSE {}) \cup
  (IF Has(s,"not") THEN {s["not"]} ELSE {})

RECURSIVE AllSchemas(_)
AllSchemas(s) == {s} \cup UNION {AllSchemas(t) : t \in SubSchemas(s)}
RootSchemas(root) == AllSchemas(root) \cup UNION {AllSchemas(root.dv[j]) : j \in 1..Len(root.dv)}

RECURSIVE AllValues(_)
AllValues(i) == {i} \cup (IF i.t \in {"arr", "obj"} THEN UNION {AllValues(i.v[j]) : j \in 1..Len(i.v)} ELSE {})

\* some (number in the instance, multipleOf in the schema) pair lies in the float tolerance region
TouchesMultRegion(root, i) ==
  \E s \in RootSchemas(root) : Has(s, "multipleOf") /\
     \E v \in AllValues(i) : v.t = "num" /\ MultRegion(v, s.multipleOf)
=============================================================================
