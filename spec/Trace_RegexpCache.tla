------------------------- MODULE Trace_RegexpCache -------------------------
(***************************************************************************)
(* Trace validation of pattern uses recorded from the real code (1..64      *)
(* goroutines; Pattern, the pattern keyword, patternProperties).  One event *)
(* is one complete request: Call .. Return of RegexpCache.tla.  The cache   *)
(* itself is not logged: the monitor keeps the set of patterns that MAY be  *)
(* cached (those requested so far) and checks the return clause of the      *)
(* specification on every event:                                            *)
(*   ReturnedIsRequested: the answer is the answer of the expression        *)
(*     compiled from the requested pattern (fact supplied by the harness    *)
(*     from an independently compiled regexp);                              *)
(*   InvalidNeverCached / invalid is always an error: an invalid pattern    *)
(*     never yields a match, whatever was used before.                      *)
(***************************************************************************)
EXTENDS Json, TLC, Sequences, Integers, FiniteSets
Trace == ndJsonDeserialize("events.ndjson")
VARIABLES l, fails, requested, invalid
vars == <<l, fails, requested, invalid>>

Init == l = 1 /\ fails = {} /\ requested = {} /\ invalid = {}

\* the three observation points report "match" or "error"; "error" covers both no-match and invalid
Agrees(out, fact) == IF fact = "match" THEN out = "match" ELSE out = "error"

Next == /\ l <= Len(Trace)
        /\ l' = l + 1
        /\ LET ev == Trace[l] IN
           IF ev.ev = "reset"
           THEN requested' = {} /\ invalid' = {} /\ UNCHANGED fails
           ELSE /\ requested' = requested \cup {ev.pid}
                /\ invalid' = IF ev.fact = "invalid" THEN invalid \cup {ev.pid} ELSE invalid
                /\ fails' = fails
                     \* a patternProperties keyword may carry several patterns: the key is matched iff SOME pattern
                     \* of the keyword matches it; an invalid pattern next to it changes nothing
                     \cup (LET combined == IF \E j \in 1..Len(ev.facts) : ev.facts[j] = "match" THEN "match" ELSE ev.fact
                           IN IF Agrees(ev.out, combined) THEN {} ELSE
                             {[l |-> l, clause |-> "ReturnedIsRequested", want |-> combined, got |-> ev.out, dev |-> ""]})
                     \* a pattern once seen invalid stays invalid (the fact is a function of the pattern)
                     \cup (IF ev.pid \in invalid /\ ev.fact # "invalid" THEN
                             {[l |-> l, clause |-> "harness-fact-unstable", want |-> "invalid", got |-> ev.fact, dev |-> ""]} ELSE {})
Spec == Init /\ [][Next]_vars

RECURSIVE SetToSeq(_)
SetToSeq(S) == IF S = {} THEN <<>> ELSE LET x == CHOOSE x \in S : TRUE IN <<x>> \o SetToSeq(S \ {x})
Done == l = Len(Trace) + 1 =>
          /\ ndJsonSerialize("fails.ndjson", SetToSeq(fails))
          /\ PrintT(<<"TRACE-DONE", Len(Trace), Cardinality(fails)>>)
=============================================================================
