package main

import (
	"context"
	"encoding/json"
	"flag"
	"fmt"
	"math/big"
	"math/rand"
	"os"
	"path/filepath"
	"reflect"
	"sort"
	"strings"
	"unicode"

	"github.com/go-openapi/strfmt"
	"github.com/go-openapi/validate"

	"verifharness/internal/enc"
)

func init() { commands["drive-helpers"] = driveHelpers }

func bytesOf(s string) []interface{} {
	out := make([]interface{}, len(s))
	for i := 0; i < len(s); i++ {
		out[i] = int(s[i])
	}
	return out
}

// foldKey is a canonical representative of s under Unicode simple case folding (the relation of strings.EqualFold):
// every rune is replaced by the smallest rune of its folding orbit (K, k and the Kelvin sign; S, s and the long s; the
// three sigmas ...). Lower-casing is NOT such a key: ToLower keeps the final sigma and the long s apart.
func foldKey(s string) string {
	var b strings.Builder
	for _, r := range s {
		m := r
		for f := unicode.SimpleFold(r); f != r; f = unicode.SimpleFold(f) {
			if f < m {
				m = f
			}
		}
		b.WriteRune(m)
	}
	return b.String()
}

func goStr(s string) enc.M {
	return enc.M{"k": "string", "b": bytesOf(s), "low": bytesOf(foldKey(s)), "x": enc.Pct(s)}
}

// goValue encodes a typed Go value for Helpers.tla.
func goValue(v interface{}) enc.M {
	if v == nil {
		return enc.M{"k": "nil"}
	}
	rv := reflect.ValueOf(v)
	switch rv.Kind() {
	case reflect.Int, reflect.Int8, reflect.Int16, reflect.Int32, reflect.Int64:
		return enc.M{"k": rv.Kind().String(), "num": enc.NumFromDecimal(fmt.Sprint(rv.Int()))}
	case reflect.Uint, reflect.Uint8, reflect.Uint16, reflect.Uint32, reflect.Uint64:
		return enc.M{"k": rv.Kind().String(), "num": enc.NumFromDecimal(fmt.Sprint(rv.Uint()))}
	case reflect.Float32, reflect.Float64:
		r := new(big.Rat).SetFloat64(rv.Float())
		return enc.M{"k": rv.Kind().String(), "num": enc.NumFromDecimal(r.FloatString(30))}
	case reflect.String:
		return goStr(rv.String())
	case reflect.Bool:
		return enc.M{"k": "bool", "v": rv.Bool()}
	case reflect.Slice:
		if rv.IsNil() {
			return enc.M{"k": "typednil", "of": "slice"}
		}
		e := make([]interface{}, rv.Len())
		for i := range e {
			e[i] = goValue(rv.Index(i).Interface())
		}
		return enc.M{"k": "slice", "e": e, "et": rv.Type().Elem().String()}
	case reflect.Map:
		if rv.IsNil() {
			return enc.M{"k": "typednil", "of": "map"}
		}
		var ks []string
		for _, k := range rv.MapKeys() {
			ks = append(ks, k.String())
		}
		sort.Strings(ks)
		mk, mv := []interface{}{}, []interface{}{}
		for _, k := range ks {
			mk = append(mk, enc.Pct(k))
			mv = append(mv, goValue(rv.MapIndex(reflect.ValueOf(k)).Interface()))
		}
		return enc.M{"k": "map", "mk": mk, "mv": mv}
	case reflect.Ptr:
		if rv.IsNil() {
			return enc.M{"k": "typednil", "of": "ptr"}
		}
		return enc.M{"k": "ptr", "to": goValue(rv.Elem().Interface())}
	}
	return enc.M{"k": "other"}
}

func sp(s string) *string { return &s }

// namedStr is a named string type (the shape generated code uses for enumerations): of kind string, like string itself
type namedStr string

var helperValues = func() []interface{} {
	var nilPtr *int
	var nilSlice []int
	var nilMap map[string]interface{}
	return []interface{}{
		nil, nilPtr, nilSlice, nilMap,
		int(0), int(1), int8(1), int32(1), int64(1), uint8(1), uint(1), float32(1), float64(1), float64(1.5), int(2), float64(2), float64(0), uint16(300), int(300), int8(44), int(-1),
		uint32(4294967295), int(65), float32(0.5), float64(0.5),
		"", "a", "A", "ab", "AB", "é", "É", "1",
		true, false,
		[]int{}, []int{1}, []interface{}{1, "a"}, []interface{}{1.0, "a"}, []string{"a"}, []interface{}{},
		map[string]interface{}{}, map[string]interface{}{"a": 1}, map[string]interface{}{"a": 1.0}, map[string]interface{}{"a": []interface{}{1}},
		sp("x"), sp("x"), sp("y"), sp(""),
	}
}()

var byteAlphabet = []byte{'a', 0x7f, 0x80, 0xbf, 0xc2, 0xc3, 0xa9, 0xe0, 0xa0, 0xed, 0xf0, 0x90, 0xf4, 0xff}

func repr(v interface{}) string {
	if s, ok := v.([]interface{}); ok {
		parts := make([]string, len(s))
		for i := range s {
			parts[i] = repr(s[i])
		}
		return "[" + strings.Join(parts, ", ") + "]"
	}
	return fmt.Sprintf("%T(%#v)", v, v)
}

func driveHelpers(args []string) error {
	fs := flag.NewFlagSet("drive-helpers", flag.ExitOnError)
	seed := fs.Int64("seed", 1, "seed")
	full := fs.Bool("full", false, "whole universes (thorough tier)")
	out := fs.String("out", "", "output directory")
	mode := fs.String("mode", "universe", "universe | witness")
	witness := fs.String("witness", "", "comma separated witness files (mode witness)")
	fs.Parse(args)
	r := rand.New(rand.NewSource(*seed))
	w := newChunkWriter(*out, 6000)
	defer w.close()
	distinct := map[string]struct{}{}
	var samples []interface{}
	keep := func(p float64) bool { return *full || r.Float64() < p }
	emit := func(fn string, fields enc.M, input enc.M, call func() bool, argsRepr func() string) error {
		before := argsRepr()
		var e1, e2 bool
		st := protect(func() string { e1 = call(); e2 = call(); return "" })
		ev := enc.M{"ev": "helper", "n": w.n + 1, "fn": fn, "err": e1, "again": e2, "argsSame": before == argsRepr()}
		if st != "" {
			ev["err"], ev["again"] = true, false // a panic is neither answer: reported through the purity clause
			input["panic"] = st
		}
		for k, v := range fields {
			ev[k] = v
		}
		input["fn"] = fn
		distinct[fn+"/"+fmt.Sprint(input)] = struct{}{}
		if len(samples) < 6 && w.n%1511 == 0 {
			samples = append(samples, input)
		}
		return w.write(ev, input)
	}
	if *mode == "witness" {
		for _, f := range strings.Split(*witness, ",") {
			b, err := os.ReadFile(f)
			if err != nil {
				return err
			}
			var wf struct{ Case string }
			if err := json.Unmarshal(b, &wf); err != nil {
				return err
			}
			var d interface{}
			var list []interface{}
			fn := "Enum"
			switch wf.Case {
			case "EnumLossyConversion":
				d, list = 1.5, []interface{}{int(1)}
			case "EnumNilNil":
				d, list = nil, []interface{}{nil}
			case "EnumNestedCrossType":
				d, list = []interface{}{1, "a"}, []interface{}{[]interface{}{1.0, "a"}}
			case "UniqueItemsCrossType":
				fn, d = "UniqueItems", []interface{}{int(1), float64(1)}
			default:
				return fmt.Errorf("unknown witness case %q", wf.Case)
			}
			if fn == "UniqueItems" {
				if err := emit(fn, enc.M{"data": goValue(d)}, enc.M{"items": repr(d)}, func() bool { return validate.UniqueItems("p", "q", d) != nil }, func() string { return repr(d) }); err != nil {
					return err
				}
				continue
			}
			encList := make([]interface{}, len(list))
			for q := range list {
				encList[q] = goValue(list[q])
			}
			if err := emit(fn, enc.M{"data": goValue(d), "enum": encList}, enc.M{"data": repr(d), "enum": repr(list)}, func() bool { return validate.Enum("p", "q", d, list) != nil }, func() string { return repr(d) }); err != nil {
				return err
			}
		}
		w.close()
		return writeJSONFile(filepath.Join(*out, "meta.json"), map[string]interface{}{"events": w.n})
	}
	// MinLength / MaxLength: all byte strings of length <= 3 over the alphabet x limits 0..4
	var strs []string
	strs = append(strs, "")
	for _, a := range byteAlphabet {
		strs = append(strs, string([]byte{a}))
		for _, b := range byteAlphabet {
			strs = append(strs, string([]byte{a, b}))
			for _, c := range byteAlphabet {
				if keep(0.25) {
					strs = append(strs, string([]byte{a, b, c}))
				}
			}
		}
	}
	for _, extra := range []string{"\xf0\x90\x80\x80", "\xf4\x8f\xbf\xbf", "\xf4\x90\x80\x80", "\xe0\xa0\x80a", "a\xe2\x82\xac", "\xed\xa0\x80", "日本語", "é😀"} {
		strs = append(strs, extra)
	}
	for _, s := range strs {
		s := s
		for lim := int64(0); lim <= 4; lim++ {
			lim := lim
			if !keep(0.5) {
				continue
			}
			for _, fn := range []string{"MinLength", "MaxLength"} {
				fn := fn
				if err := emit(fn, enc.M{"s": goStr(s), "limit": int(lim)}, enc.M{"string": fmt.Sprintf("%q", s), "limit": lim}, func() bool {
					if fn == "MinLength" {
						return validate.MinLength("p", "q", s, lim) != nil
					}
					return validate.MaxLength("p", "q", s, lim) != nil
				}, func() string { return s }); err != nil {
					return err
				}
			}
		}
	}
	// Pattern
	for _, p := range []string{"^a", "b$", "é", "^.$", "(", "[a-", "a{2,1}", "", "x*", "ab", "\xff", "caf\xc3", "\uFFFD", "a.b", "a b"} {
		for _, s := range []string{"", "a", "ab", "é", "b", "xa", "\xff", "a\xffb", "caf\xc3\xa9", "caf\xc3", "\uFFFD", "a.b", "axb", "a b"} {
			p, s := p, s
			if err := emit("Pattern", enc.M{"fact": rexpFact(p, s)}, enc.M{"pattern": p, "string": fmt.Sprintf("%q", s)}, func() bool { return validate.Pattern("p", "q", s, p) != nil }, func() string { return p + s }); err != nil {
				return err
			}
		}
	}
	// MinItems / MaxItems, RequiredString, RequiredNumber
	for size := int64(0); size <= 3; size++ {
		for lim := int64(0); lim <= 3; lim++ {
			size, lim := size, lim
			emit("MinItems", enc.M{"size": int(size), "limit": int(lim)}, enc.M{"size": size, "limit": lim}, func() bool { return validate.MinItems("p", "q", size, lim) != nil }, func() string { return "" })
			emit("MaxItems", enc.M{"size": int(size), "limit": int(lim)}, enc.M{"size": size, "limit": lim}, func() bool { return validate.MaxItems("p", "q", size, lim) != nil }, func() string { return "" })
		}
	}
	for _, s := range []string{"", "a", " ", "\x00"} {
		s := s
		emit("RequiredString", enc.M{"s": goStr(s)}, enc.M{"string": fmt.Sprintf("%q", s)}, func() bool { return validate.RequiredString("p", "q", s) != nil }, func() string { return s })
	}
	for _, x := range []string{"0", "1", "-1", "0.5", "0.000001"} {
		x := x
		f, _ := new(big.Rat).SetString(x)
		xf, _ := f.Float64()
		emit("RequiredNumber", enc.M{"x": enc.NumFromDecimal(x)}, enc.M{"x": x}, func() bool { return validate.RequiredNumber("p", "q", xf) != nil }, func() string { return x })
	}
	// Required / ReadOnly: every value x every operation context
	type ctxForm struct {
		name string
		ctx  context.Context
		op   string
	}
	bg := context.Background()
	ctxs := []ctxForm{
		{"none", bg, "none"}, {"request", validate.WithOperationRequest(bg), "request"}, {"response", validate.WithOperationResponse(bg), "response"},
		{"request(response)", validate.WithOperationRequest(validate.WithOperationResponse(bg)), "request"},
		{"response(request)", validate.WithOperationResponse(validate.WithOperationRequest(bg)), "response"},
		{"request(request)", validate.WithOperationRequest(validate.WithOperationRequest(bg)), "request"},
		{"unrelated value", context.WithValue(bg, "operationTypeKey", "request"), "none"},
	}
	for _, v := range helperValues {
		v := v
		if err := emit("Required", enc.M{"data": goValue(v)}, enc.M{"data": repr(v)}, func() bool { return validate.Required("p", "q", v) != nil }, func() string { return repr(v) }); err != nil {
			return err
		}
		for _, c := range ctxs {
			c := c
			if err := emit("ReadOnly", enc.M{"data": goValue(v), "ctx": c.op}, enc.M{"data": repr(v), "context": c.name}, func() bool { return validate.ReadOnly(c.ctx, "p", "q", v) != nil }, func() string { return repr(v) }); err != nil {
				return err
			}
		}
	}
	// Enum / EnumCase: data x enum lists of one or two members
	for _, d := range helperValues {
		for i, e1 := range helperValues {
			for j, e2 := range helperValues {
				if j != i && !(j == (i+7)%len(helperValues) && keep(0.5)) {
					continue
				}
				d, enumList := d, []interface{}{e1}
				if j != i {
					enumList = append(enumList, e2)
				}
				if !keep(0.6) {
					continue
				}
				encList := make([]interface{}, len(enumList))
				for q := range enumList {
					encList[q] = goValue(enumList[q])
				}
				in := enc.M{"data": repr(d), "enum": repr(enumList)}
				if err := emit("Enum", enc.M{"data": goValue(d), "enum": encList}, in, func() bool { return validate.Enum("p", "q", d, enumList) != nil }, func() string { return repr(d) + repr(enumList) }); err != nil {
					return err
				}
				for _, cs := range []bool{true, false} {
					cs := cs
					in2 := enc.M{"data": repr(d), "enum": repr(enumList), "caseSensitive": cs}
					if err := emit("EnumCase", enc.M{"data": goValue(d), "enum": encList, "cs": cs}, in2, func() bool { return validate.EnumCase("p", "q", d, enumList, cs) != nil }, func() string { return repr(d) + repr(enumList) }); err != nil {
						return err
					}
				}
			}
		}
	}
	// an enumeration without members admits nothing
	for _, d := range []interface{}{"a", 1, nil, []interface{}{}, true} {
		for _, enumList := range []interface{}{[]interface{}{}, []string{}, []int64{}, []interface{}{"a", 1}[:0]} {
			d, enumList := d, enumList
			emit("Enum", enc.M{"data": goValue(d), "enum": []interface{}{}}, enc.M{"data": repr(d), "enum": repr(enumList)}, func() bool { return validate.Enum("p", "q", d, enumList) != nil }, func() string { return repr(d) + repr(enumList) + "empty" })
			for _, cs := range []bool{true, false} {
				cs := cs
				emit("EnumCase", enc.M{"data": goValue(d), "enum": []interface{}{}, "cs": cs}, enc.M{"data": repr(d), "enum": repr(enumList), "caseSensitive": cs}, func() bool { return validate.EnumCase("p", "q", d, enumList, cs) != nil }, func() string { return repr(d) + repr(enumList) + fmt.Sprint(cs) + "empty" })
			}
		}
	}
	// EnumCase with named string types on either side (kind string: the comparison is the one of plain strings)
	for _, d := range []interface{}{namedStr("Ab"), namedStr("ab"), "AB", "ab", namedStr(""), "ΟΔΟΣ", "οδος", "οδοσ", "ſecret", "SECRET", "Kelvin", "kelvin"} {
		for _, enumList := range [][]interface{}{{namedStr("ab")}, {"ab"}, {namedStr("AB"), "x"}, {"x", namedStr("aB")}, {namedStr("")},
			{"οδος"}, {"ΟΔΟΣ", "x"}, {"secret"}, {"Secret", "ſECRET"}, {"KELVIN"}, {"x", "KELVIN"}} {
			d, enumList := d, enumList
			encList := make([]interface{}, len(enumList))
			for q := range enumList {
				encList[q] = goValue(enumList[q])
			}
			for _, cs := range []bool{true, false} {
				cs := cs
				in2 := enc.M{"data": repr(d), "enum": repr(enumList), "caseSensitive": cs}
				if err := emit("EnumCase", enc.M{"data": goValue(d), "enum": encList, "cs": cs}, in2, func() bool { return validate.EnumCase("p", "q", d, enumList, cs) != nil }, func() string { return repr(d) + repr(enumList) + fmt.Sprint(cs) }); err != nil {
					return err
				}
			}
		}
	}
	// UniqueItems: pairs and triples
	for i, a := range helperValues {
		for j, b := range helperValues {
			if !keep(0.5) {
				continue
			}
			items := []interface{}{a, b}
			if (i+j)%3 == 0 {
				items = append(items, helperValues[(i*j)%len(helperValues)])
			}
			items2 := items
			if err := emit("UniqueItems", enc.M{"data": goValue(items2)}, enc.M{"items": repr(items2)}, func() bool { return validate.UniqueItems("p", "q", items2) != nil }, func() string { return repr(items2) }); err != nil {
				return err
			}
		}
	}
	for _, typed := range []interface{}{[]*string{sp("x"), sp("x")}, []*string{sp("x"), sp("y")}, []int{1, 2, 1}, []string{"a", "A"}, []float64{1, 1.5}, "notaslice", 5, nil, []int(nil)} {
		typed := typed
		emit("UniqueItems", enc.M{"data": goValue(typed)}, enc.M{"items": repr(typed)}, func() bool { return validate.UniqueItems("p", "q", typed) != nil }, func() string { return repr(typed) })
	}
	// FormatOf
	custom := strfmt.NewFormats()
	for _, name := range []string{"date", "email", "nosuchformat", ""} {
		for _, s := range []string{"2020-01-01", "a@b.co", "nope", ""} {
			for ri, reg := range []strfmt.Registry{nil, strfmt.Default, custom} {
				name, s, reg := name, s, reg
				eff := reg
				if eff == nil {
					eff = strfmt.Default
				}
				known := eff.ContainsName(name)
				accepts := known && eff.Validates(name, s)
				emit("FormatOf", enc.M{"known": known, "accepts": accepts}, enc.M{"format": name, "string": s, "registry": []string{"nil", "Default", "NewFormats()"}[ri]},
					func() bool { return validate.FormatOf("p", "q", name, s, reg) != nil }, func() string { return name + s })
			}
		}
	}
	// the answer follows the registry that is GIVEN, at the time of the call: a name unknown to one registry and known to another,
	// and a name added to a registry after it was first asked for
	{
		isEven := func(s string) bool { return len(s) > 0 && (s[len(s)-1]-'0')%2 == 0 }
		regA, regB := strfmt.NewFormats(), strfmt.NewFormats()
		regB.Add("evenfmt", new(strfmt.Date), isEven)
		step := 0
		ask := func(label string, reg strfmt.Registry, name, s string) {
			step++
			known := reg.ContainsName(name)
			accepts := known && reg.Validates(name, s)
			emit("FormatOf", enc.M{"known": known, "accepts": accepts}, enc.M{"format": name, "string": s, "registry": label, "step": step},
				func() bool { return validate.FormatOf("p", "q", name, s, reg) != nil }, func() string { return fmt.Sprint(step, label, name, s) })
		}
		ask("A (does not know evenfmt)", regA, "evenfmt", "12")
		ask("B (knows evenfmt)", regB, "evenfmt", "12")
		ask("B (knows evenfmt)", regB, "evenfmt", "13")
		ask("A (does not know laterfmt yet)", regA, "laterfmt", "12")
		regA.Add("laterfmt", new(strfmt.Date), isEven)
		ask("A after Add(laterfmt)", regA, "laterfmt", "12")
		ask("A after Add(laterfmt)", regA, "laterfmt", "13")
		ask("B (does not know laterfmt)", regB, "laterfmt", "12")
	}
	w.close()
	return writeJSONFile(filepath.Join(*out, "meta.json"), map[string]interface{}{"events": w.n, "distinct_nontrivial": len(distinct), "samples": samples})
}
