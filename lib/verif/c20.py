"""C20 - results combine as ordered sets of messages with additive match counts."""
import json, os, shutil
from . import common, schemafam
from .common import Inconclusive

MC_CFG = """SPECIFICATION Spec
CONSTANTS
  RIds = %s
  Msgs = %s
  Nil = "nil"
  MaxMC = %d
CONSTRAINT Bounded
INVARIANTS NoDupMsgs ValidIffNoErrors
PROPERTIES PrefixPreserved MergeIsAdditive FrameAdd AddIsOrderedUnion
VIEW View
CHECK_DEADLOCK FALSE
"""
GEN_CFG = """SPECIFICATION SimSpec
CONSTANTS
  RIds = {"r1", "r2", "r3"}
  Msgs = {"a", "b", "c"}
  Nil = "nil"
  Depth = %d
  MaxMC = 100000
INVARIANT Emit
CHECK_DEADLOCK FALSE
"""
TRACE_CFG = """SPECIFICATION TraceSpec
INVARIANTS Done
CHECK_DEADLOCK FALSE
CONSTANTS
  RIds = {"r1", "r2", "r3", "r4", "r5"}
  Msgs = {"m1", "m2", "m3", "m4", "m5", "m6", "b1", "b2", "b3", "b4", "b5", "b6", "b7", "b8", "b9", "b10", "b11", "b12", "b13", "b14", "b15", "b16", "b17", "b18", "b19", "b20"}
  Nil = "nil"
"""


def run(tier, seed):
    check = common.Check("C20", tier, seed, "model_checking")
    vh = common.build_vh()
    quick = tier == "quick"
    # 1. exhaustive model check of the accumulator's design (all operation sequences within the bounds)
    configs = [('{"r1", "r2"}', '{"a", "b"}', 3)]
    if not quick:
        # measured: 3 results x 2 messages does not finish (>10^9 transitions); three results are explored with one message
        configs.append(('{"r1", "r2", "r3"}', '{"a"}', 2))
    check.coverage["exhaustive_model"] = []
    for k, (rids, msgs, maxmc) in enumerate(configs):
        wdk = common.workdir("C20-mc%d" % k)
        r = common.tlc_or_inconclusive(wdk, "MC_Result", MC_CFG % (rids, msgs, maxmc), timeout=600 if quick else 3600, workers=8 if quick else 14, heap="8g")
        if r["violated"]:
            raise Inconclusive("the Result specification violates its own property %s (spec bug):\n%s" % (r["violated"], r["out"][-2000:]))
        check.add_tlc(r)
        check.coverage["exhaustive_model"].append(dict(results=rids, messages=msgs, distinct_states=r["distinct"], transitions=r["states"], depth=r["depth"]))
    # 1b. (thorough) histories of ANY length: "no duplicate, no nil stored" is an inductive invariant of the accumulator (Apalache)
    if not quick:
        common.apalache_inductive(check, "ResultInd")
        check.coverage["inductive_invariant"] = ("ResultInd!IndInv (no message duplicated, nil never stored, in errors and warnings of two results under AddErrors / AddWarnings / "
                                                 "Merge / MergeAsErrors / MergeAsWarnings incl. self-merges): Init => IndInv and IndInv /\\ Next => IndInv' discharged by Apalache 0.58")
    # 2. spec -> code: TLC-generated behaviours stepped through real validate.Result values
    nproc, num, depth = (6, 12, 30) if quick else (14, 60, 60)

    def gen(k):
        d = common.workdir("C20-gen-%d" % k)
        g = common.tlc(d, "Gen_Result", GEN_CFG % depth, timeout=1800, simulate="num=%d" % num,
                       extra_args=["-depth", str(depth + 1), "-seed", str(seed * 1000 + k)])
        if g["timeout"] or not any(f.startswith("beh_") for f in os.listdir(d)):
            raise Inconclusive("behaviour generation failed:\n" + g["out"][-1500:])
        rep = os.path.join(d, "report.json")
        common.run([vh, "replay-result", "-in", d, "-out", rep])
        return json.load(open(rep))
    behaviours = steps = 0
    for rep in common.parallel(gen, list(range(nproc)), jobs=nproc):
        behaviours += rep["behaviours"]
        steps += rep["steps"]
        check.coverage["distinct_nontrivial"] += rep["distinct_steps"]
        if rep.get("sample") and len(check.coverage["samples"]) < 2:
            check.coverage["samples"].append(dict(behaviour_prefix=rep["sample"]))
        for d in (rep["divergences"] or []):
            check.violation(dict(family="result-behaviour", divergence=d), "TLC behaviour diverges on real code at step %s: %s" % (d.get("step"), d.get("what")))
    check.coverage["evaluations"] += steps
    check.coverage["behaviours_replayed"] = behaviours
    # 3. code -> spec: recorded random operation sequences validated against the specification
    wd = common.workdir("C20-trace")
    common.run([vh, "drive-result", "-seed", str(seed), "-n", str(150 if quick else 4000), "-len", str(60 if quick else 120), "-out", wd, "-chunk", "4000"])
    meta = json.load(open(os.path.join(wd, "meta.json")))
    cks = schemafam.chunks(wd)

    def ev(c):
        fp = os.path.join(c, "fails.ndjson")
        rr = common.tlc_or_inconclusive(c, "Trace_Result", TRACE_CFG, timeout=1800)
        if rr["violated"]:
            return rr, [dict(l=0, clause="invariant " + rr["violated"], input={}, got=rr["out"][-1500:], want="")]
        n = sum(1 for _ in open(os.path.join(c, "events.ndjson")))
        if "TRACE-DONE" not in rr["out"] or rr["distinct"] != n + 1:
            raise Inconclusive("trace not fully consumed: %s" % c)
        fails = common.read_ndjson(fp)
        inputs = common.read_ndjson(os.path.join(c, "inputs.ndjson"))
        for f in fails:
            f["input"] = inputs[f["l"] - 1] if f["l"] else {}
        return rr, fails
    for rr, fails in common.parallel(ev, cks):
        check.add_tlc(rr)
        for f in fails[:3]:
            check.violation(dict(family="result-trace", clause=f["clause"], want=f.get("want"), got=f.get("got"), input=f["input"]),
                            "recorded operation is not a step of Result.tla: %s on %s" % (f["clause"], f.get("rid")))
    check.coverage["evaluations"] += meta["events"]
    check.coverage["distinct_nontrivial"] += meta["distinct_nontrivial"]
    check.coverage["traces_validated_against_impl"] = len(cks) + behaviours
    check.coverage["samples"] += [dict(recorded_ops=s) for s in meta["samples"][:1]]
    check.coverage["rule"] = ("exhaustive: all operation sequences of Result.tla over %s results, 2 messages, bounded counts (invariants + action properties). "
                              "behaviours: TLC -simulate behaviours (3 results incl. pool-borrowed ones that die when merged, 3 messages, nil arguments, self-merges) "
                              "replayed step by step into real validate.Result values with redeemed results poisoned; the projection (messages in order, counts, 5 queries) of every "
                              "live result is compared after every step. traces: seeded random operation sequences on 5 results / 6 messages recorded from the code and validated by "
                              "Trace_Result.tla. distinct = distinct (operation, state-after) pairs." % ("2" if quick else "2 (2 messages) and 3 (1 message)"))
    check.assumptions = ["error values are compared by message text (the property's notion of identity)", "projection function of the harness (cmd/vh/result.go) is trusted"]
    return check.finish()
