------------------------------ MODULE Trace_Api ------------------------------
(***************************************************************************)
(* C08: long-lived validators are stateless.                                *)
(* A handle h is a schema / parameter / header validator built once without *)
(* recycling: Build(h, def).  Validate(h, x) is enabled any number of       *)
(* times, in any order, returns Outcome(def, x) and leaves h unchanged.     *)
(* The monitor keeps memo[h][x], the outcome observed the first time value  *)
(* x was validated with handle h, and checks on every recorded call:        *)
(*   Stateless:   out = the outcome of a freshly built validator on x       *)
(*                (verdict and message SET; digests computed by the harness)*)
(*   Repeatable:  out = memo[h][x]  (also exercises map-iteration order)    *)
(***************************************************************************)
EXTENDS Json, TLC, Sequences, Integers, FiniteSets
Trace == ndJsonDeserialize("events.ndjson")
VARIABLES l, fails, memo
vars == <<l, fails, memo>>
Init == l = 1 /\ fails = {} /\ memo = [k \in {} |-> ""]

Next ==
  /\ l <= Len(Trace)
  /\ l' = l + 1
  /\ LET ev == Trace[l] IN
     IF ev.ev = "build"
     THEN memo' = [k \in {} |-> ""] /\ UNCHANGED fails                \* a new handle: nothing remembered
     ELSE LET k == ev.x IN
          /\ fails' = fails
               \cup (IF ev.out # ev.fresh THEN {[l |-> l, clause |-> "Stateless: differs from a freshly built validator", want |-> ev.fresh, got |-> ev.out, dev |-> ""]} ELSE {})
               \cup (IF k \in DOMAIN memo /\ memo[k] # ev.out THEN {[l |-> l, clause |-> "Repeatable: differs from the first time this value was validated with this handle", want |-> memo[k], got |-> ev.out, dev |-> ""]} ELSE {})
          /\ memo' = IF k \in DOMAIN memo THEN memo ELSE [j \in DOMAIN memo \cup {k} |-> IF j = k THEN ev.out ELSE memo[j]]
Spec == Init /\ [][Next]_vars

RECURSIVE SetToSeq(_)
SetToSeq(S) == IF S = {} THEN <<>> ELSE LET x == CHOOSE x \in S : TRUE IN <<x>> \o SetToSeq(S \ {x})
Done == l = Len(Trace) + 1 =>
          /\ ndJsonSerialize("fails.ndjson", SetToSeq(fails))
          /\ PrintT(<<"TRACE-DONE", Len(Trace), Cardinality(fails)>>)
=============================================================================
