---------------------------- MODULE SchemaErrors ----------------------------
(***************************************************************************)
(* C17: every rejection is explained by well-formed, correctly located      *)
(* errors.  Names are compared in percent-encoded form: percent-encoding is *)
(* a homomorphism for concatenation, so Pct(root + "." + key) =             *)
(* Pct(root) \o "%2E" \o Pct(key); member names are already encoded in the  *)
(* instance (field x of a key).                                             *)
(***************************************************************************)
EXTENDS JsonSchema, TLC

Sep == "%2E"

RECURSIVE JoinSegs(_)
JoinSegs(segs) == IF Len(segs) = 1 THEN segs[1] ELSE segs[1] \o Sep \o JoinSegs(Tail(segs))

\* the documented composition; for an empty root the name may or may not start with the separator
Compose(root, segs) ==
  IF segs = <<>> THEN {root}
  ELSE IF root = "" THEN {JoinSegs(segs), Sep \o JoinSegs(segs)}
  ELSE {root \o Sep \o JoinSegs(segs)}

\* all paths (sequences of segments) into an instance
RECURSIVE RelPaths(_)
RelPaths(i) ==
  {<<>>} \cup
  (IF i.t = "obj" THEN UNION {{<<i.k[m].x>> \o p : p \in RelPaths(i.v[m])} : m \in 1..Len(i.k)}
   ELSE IF i.t = "arr" THEN UNION {{<<ToString(j - 1)>> \o p : p \in RelPaths(i.v[j])} : j \in 1..Len(i.v)}
   ELSE {})

RECURSIVE At(_, _)
At(i, p) == IF p = <<>> THEN i
            ELSE IF i.t = "obj" THEN At(i.v[CHOOSE m \in 1..Len(i.k) : i.k[m].x = p[1]], Tail(p))
            ELSE At(i.v[CHOOSE j \in 1..Len(i.v) : ToString(j - 1) = p[1]], Tail(p))

RequiredNames(root) == UNION {SeqToSet(s.required) : s \in {t \in RootSchemas(root) : Has(t, "required")}}

\* names an error may carry: the root, extensions of it by member names / indices that exist in the instance,
\* or a missing required member of an object of the instance
\* The statement claims LOCATED names only for nesting through properties, patternProperties, additionalProperties
\* and tuple items.  Elsewhere it only says "the root path or an extension of it by member names and indices":
\*  - under a single-schema `items` the implementation composes names without the element index;
\*  - a schema-valued dependency is validated under <path>.<dependency key>.
\* For schemas using one of these two constructs the weaker reading is checked (Derivable): the name is the root
\* extended by segments each of which is a member name of the instance, an index, a required name or a dependency key.
UsesSingleItems(root) == \E s \in RootSchemas(root) : Has(s, "items")
UsesSchemaDeps(root) == \E s \in RootSchemas(root) : Has(s, "depk") /\ \E j \in 1..Len(s.depv) : "s" \in DOMAIN s.depv[j]
DepKeys(root) == UNION {SeqToSet(s.depk) : s \in {t \in RootSchemas(root) : Has(t, "depk")}}
MemberNames(i) == UNION {SeqToSet(v.k) : v \in {w \in AllValues(i) : w.t = "obj"}}
MaxLen(i) == LET ls == {Len(v.v) : v \in {w \in AllValues(i) : w.t = "arr"}} IN IF ls = {} THEN 0 ELSE CHOOSE m \in ls : \A q \in ls : q <= m
WeakSegs(root, i) == {k.x : k \in MemberNames(i)} \cup {ToString(n) : n \in 0..(MaxLen(i) - 1)} \cup RequiredNames(root) \cup DepKeys(root)

HasSuffix(s, suf) == Len(suf) <= Len(s) /\ SubSeq(s, Len(s) - Len(suf) + 1, Len(s)) = suf
RECURSIVE Derivable(_, _, _)
Derivable(name, rootp, segs) ==
  \/ name = rootp
  \/ rootp = "" /\ name \in segs
  \/ \E g \in segs : HasSuffix(name, Sep \o g) /\ Derivable(SubSeq(name, 1, Len(name) - Len(Sep \o g)), rootp, segs)

StrongNames(rootp, root, i) ==
  LET paths == RelPaths(i)
      objs  == {p \in paths : At(i, p).t = "obj"}
      full  == paths \cup {p \o <<k>> : p \in objs, k \in RequiredNames(root)}
  IN UNION {Compose(rootp, p) : p \in full}

\* is `name` an admissible error name?
NameAllowed(name, rootp, root, i) ==
  IF UsesSingleItems(root) \/ UsesSchemaDeps(root)
  THEN Derivable(name, rootp, WeakSegs(root, i))
  ELSE name \in StrongNames(rootp, root, i)

(***************************************************************************)
(* Location accuracy, claimed for the nesting class: schemas built from     *)
(* local keywords and properties / patternProperties / additionalProperties *)
(* / items / additionalItems / required only.                               *)
(***************************************************************************)
NestingKeys == {"type", "enum", "minimum", "maximum", "exclusiveMinimum", "exclusiveMaximum", "multipleOf",
                "minLength", "maxLength", "pattern", "format", "tuple", "addItemsB", "addItemsS",
                "minItems", "maxItems", "uniqueItems", "pk", "ppk", "addPropsB", "addPropsS", "required",
                "minProperties", "maxProperties"}
NestingClass(root) == \A s \in AllSchemas(root) : SeqToSet(s.has) \subseteq NestingKeys

\* some keyword of s that concerns v itself (not its members / elements) fails
\* dev: the verdict deviations of C01 that are open (a wrong VERDICT is C01's finding, not a wrong LOCATION)
LocalFails(known, dev, s, v) ==
  \/ Has(s,"type") /\ (~TypeOK(s, v, {}) \/ ~TypeOK(s, v, dev))
  \/ Has(s,"enum") /\ (~EnumOK(s, v, {}) \/ ~EnumOK(s, v, dev))
  \/ v.t = "num" /\
       \/ Has(s,"maximum") /\ ~(IF Has(s,"exclusiveMaximum") /\ s.exclusiveMaximum THEN Lt(v, s.maximum) ELSE Le(v, s.maximum))
       \/ Has(s,"minimum") /\ ~(IF Has(s,"exclusiveMinimum") /\ s.exclusiveMinimum THEN Lt(s.minimum, v) ELSE Le(s.minimum, v))
       \/ Has(s,"multipleOf") /\ (~IsMultiple(v, s.multipleOf) \/ MultRegion(v, s.multipleOf))
  \/ v.t = "str" /\
       \/ Has(s,"maxLength") /\ v.n > s.maxLength
       \/ Has(s,"minLength") /\ v.n < s.minLength
       \/ Has(s,"pattern") /\ ~InSeq(s.pattern, v.m)
       \/ Has(s,"format") /\ s.format \in known /\ ~InSeq(s.format, v.fm)
  \/ v.t = "arr" /\
       \/ Has(s,"maxItems") /\ Len(v.v) > s.maxItems
       \/ Has(s,"minItems") /\ Len(v.v) < s.minItems
       \/ Has(s,"uniqueItems") /\ s.uniqueItems /\ \E a, b \in 1..Len(v.v) : a < b /\ JsonEq(v.v[a], v.v[b])
       \/ Has(s,"tuple") /\ Has(s,"addItemsB") /\ ~s.addItemsB /\ Len(v.v) > Len(s.tuple)
  \/ v.t = "obj" /\
       \/ Has(s,"maxProperties") /\ Len(v.k) > s.maxProperties
       \/ Has(s,"minProperties") /\ Len(v.k) < s.minProperties
       \/ Has(s,"addPropsB") /\ ~s.addPropsB /\ \E m \in 1..Len(v.k) :
            ~(Has(s,"pk") /\ InSeq(v.k[m].x, s.pk)) /\ ~(Has(s,"ppk") /\ \E j \in 1..Len(s.ppk) : InSeq(s.ppk[j], v.k[m].m))

\* paths of the members whose OWN keywords fail, or of the missing required members (nesting class only)
RECURSIVE Offenders(_, _, _, _, _)
Offenders(known, dev, s, v, p) ==
  (IF LocalFails(known, dev, s, v) THEN {p} ELSE {})
  \cup (IF v.t = "obj" /\ Has(s,"required") THEN {p \o <<s.required[j]>> : j \in {q \in 1..Len(s.required) : ~HasKey(v, s.required[q])}} ELSE {})
  \cup (IF v.t = "obj" THEN UNION {
          LET key    == v.k[m].x
              isProp == Has(s,"pk") /\ InSeq(key, s.pk)
              pats   == IF Has(s,"ppk") THEN {j \in 1..Len(s.ppk) : InSeq(s.ppk[j], v.k[m].m)} ELSE {}
          IN (IF isProp THEN Offenders(known, dev, s.pv[CHOOSE j \in 1..Len(s.pk) : s.pk[j] = key], v.v[m], p \o <<key>>) ELSE {})
             \cup UNION {Offenders(known, dev, s.ppv[j], v.v[m], p \o <<key>>) : j \in pats}
             \cup (IF ~isProp /\ pats = {} /\ Has(s,"addPropsS") THEN Offenders(known, dev, s.addPropsS, v.v[m], p \o <<key>>) ELSE {})
          : m \in 1..Len(v.k)}
        ELSE {})
  \cup (IF v.t = "arr" THEN UNION {
          LET seg == p \o <<ToString(j - 1)>> IN
          (IF Has(s,"items") THEN Offenders(known, dev, s.items, v.v[j], seg) ELSE {})
          \cup (IF Has(s,"tuple") /\ j <= Len(s.tuple) THEN Offenders(known, dev, s.tuple[j], v.v[j], seg) ELSE {})
          \cup (IF Has(s,"tuple") /\ j > Len(s.tuple) /\ Has(s,"addItemsS") THEN Offenders(known, dev, s.addItemsS, v.v[j], seg) ELSE {})
          : j \in 1..Len(v.v)}
        ELSE {})

OffenderNames(rootp, known, dev, root, i) == UNION {Compose(rootp, p) : p \in Offenders(known, dev, root, i, <<>>)}

NoDupSeq(q) == \A a, b \in 1..Len(q) : a # b => q[a] # q[b]
=============================================================================
