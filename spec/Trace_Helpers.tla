---------------------------- MODULE Trace_Helpers ----------------------------
(* C14 trace specification: one event = one helper call made twice, with argument snapshots. *)
EXTENDS Json, TLC, Helpers
CONSTANT OpenDevs
Trace == ndJsonDeserialize("events.ndjson")
VARIABLES l, fails
vars == <<l, fails>>
F(k, ev, clause, want, got, dev) == [l |-> k, n |-> ev.n, clause |-> clause, want |-> want, got |-> got, dev |-> dev]
B(b) == IF b THEN "error" ELSE "nil"
Check(ev, k) ==
  (IF ev.err # Fails(ev) THEN {F(k, ev, ev.fn, B(Fails(ev)), B(ev.err), Explain(ev, OpenDevs))} ELSE {})
  \cup (IF ev.err # ev.again THEN {F(k, ev, ev.fn \o ": pure (same arguments, same answer)", B(ev.err), B(ev.again), "")} ELSE {})
  \cup (IF ~ev.argsSame THEN {F(k, ev, ev.fn \o ": arguments untouched", "unchanged", "modified", "")} ELSE {})
Init == l = 1 /\ fails = {}
Next == /\ l <= Len(Trace)
        /\ l' = l + 1
        /\ fails' = fails \cup Check(Trace[l], l)
Spec == Init /\ [][Next]_vars
RECURSIVE SetToSeq(_)
SetToSeq(S) == IF S = {} THEN <<>> ELSE LET x == CHOOSE x \in S : TRUE IN <<x>> \o SetToSeq(S \ {x})
Done == l = Len(Trace) + 1 =>
          /\ ndJsonSerialize("fails.ndjson", SetToSeq(fails))
          /\ PrintT(<<"TRACE-DONE", Len(Trace), Cardinality(fails)>>)
=============================================================================
