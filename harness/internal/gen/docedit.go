package gen

import (
	"encoding/json"
	"fmt"
	"math/rand"
	"sort"
	"strconv"
	"strings"
)

// Ptr is a path into a JSON document.
type Ptr []interface{} // string keys and int indices

func (p Ptr) String() string {
	s := ""
	for _, x := range p {
		s += "/" + fmt.Sprint(x)
	}
	return s
}

// Pointers lists every path of the document (depth first, deterministic order), the root excluded.
func Pointers(doc interface{}) []Ptr {
	var out []Ptr
	var walk func(v interface{}, p Ptr)
	walk = func(v interface{}, p Ptr) {
		switch x := v.(type) {
		case map[string]interface{}:
			ks := make([]string, 0, len(x))
			for k := range x {
				ks = append(ks, k)
			}
			sort.Strings(ks)
			for _, k := range ks {
				q := append(append(Ptr{}, p...), k)
				out = append(out, q)
				walk(x[k], q)
			}
		case []interface{}:
			for i := range x {
				q := append(append(Ptr{}, p...), i)
				out = append(out, q)
				walk(x[i], q)
			}
		}
	}
	walk(doc, nil)
	return out
}

func get(doc interface{}, p Ptr) interface{} {
	cur := doc
	for _, x := range p {
		switch k := x.(type) {
		case string:
			cur = cur.(map[string]interface{})[k]
		case int:
			cur = cur.([]interface{})[k]
		}
	}
	return cur
}

func clone(v interface{}) interface{} {
	b, _ := json.Marshal(v)
	var out interface{}
	_ = json.Unmarshal(b, &out)
	return out
}

// EditKinds are the structural edits applied at a pointer.
var EditKinds = []string{"delete", "null", "string", "number", "bool", "array", "object", "rename-empty", "rename-dotted", "rename-sibling", "ref-nowhere", "ref-sibling", "ref-xsibling", "name-dotted", "case-flip", "blank", "transplant", "dup-into-array"}

// Edit is one structural edit.
type Edit struct {
	Kind string
	At   Ptr
	From Ptr // transplant source
}

func (e Edit) String() string {
	if e.Kind == "transplant" {
		return e.Kind + " " + e.From.String() + " -> " + e.At.String()
	}
	return e.Kind + " " + e.At.String()
}

// Apply returns an edited deep copy of the document, or nil when the edit does not apply there.
func Apply(doc interface{}, e Edit) interface{} {
	d := clone(doc)
	if len(e.At) == 0 {
		return nil
	}
	parent := get(d, e.At[:len(e.At)-1])
	last := e.At[len(e.At)-1]
	set := func(v interface{}) bool {
		switch p := parent.(type) {
		case map[string]interface{}:
			p[last.(string)] = v
		case []interface{}:
			p[last.(int)] = v
		default:
			return false
		}
		return true
	}
	cur := get(d, e.At)
	switch e.Kind {
	case "delete":
		switch p := parent.(type) {
		case map[string]interface{}:
			delete(p, last.(string))
		case []interface{}:
			i := last.(int)
			np := append(append([]interface{}{}, p[:i]...), p[i+1:]...)
			if len(e.At) == 1 {
				return nil
			}
			gp := get(d, e.At[:len(e.At)-2])
			switch g := gp.(type) {
			case map[string]interface{}:
				g[e.At[len(e.At)-2].(string)] = np
			case []interface{}:
				g[e.At[len(e.At)-2].(int)] = np
			}
		}
	case "null":
		set(nil)
	case "string":
		if _, ok := cur.(string); ok {
			return nil
		}
		set("x")
	case "number":
		if _, ok := cur.(float64); ok {
			return nil
		}
		set(1.0)
	case "bool":
		if _, ok := cur.(bool); ok {
			return nil
		}
		set(true)
	case "array":
		if _, ok := cur.([]interface{}); ok {
			return nil
		}
		set([]interface{}{})
	case "object":
		if _, ok := cur.(map[string]interface{}); ok {
			return nil
		}
		set(map[string]interface{}{})
	case "rename-empty", "rename-dotted", "rename-sibling":
		p, ok := parent.(map[string]interface{})
		if !ok {
			return nil
		}
		k := last.(string)
		nk := map[string]string{"rename-empty": "", "rename-dotted": "a.a"}[e.Kind]
		if e.Kind == "rename-sibling" {
			var sib []string
			for s := range p {
				if s != k {
					sib = append(sib, s)
				}
			}
			if len(sib) == 0 {
				return nil
			}
			sort.Strings(sib)
			nk = sib[0]
		}
		if nk == k {
			return nil
		}
		p[nk] = p[k]
		delete(p, k)
	case "ref-nowhere":
		set(map[string]interface{}{"$ref": "#/nowhere"})
	case "ref-sibling":
		m, ok := cur.(map[string]interface{})
		if !ok {
			return nil
		}
		if _, has := m["$ref"]; !has {
			m["$ref"] = "#/definitions/" + strconv.Itoa(len(m))
		}
		m["description"] = "sibling of a reference"
		m["default"] = "d"
	case "blank":
		// the empty string in place of a non-empty one (formats, patterns and enumerations still apply to it)
		str, ok := cur.(string)
		if !ok || str == "" {
			return nil
		}
		set("")
	case "case-flip":
		// the same text in another letter case (enumerated values are case sensitive)
		str, ok := cur.(string)
		if !ok || strings.ToUpper(str) == str && strings.ToLower(str) == str {
			return nil
		}
		if strings.ToUpper(str) != str {
			set(strings.ToUpper(str[:1]) + str[1:])
			if strings.ToUpper(str[:1]) == str[:1] {
				set(strings.ToUpper(str))
			}
		} else {
			set(strings.ToLower(str))
		}
	case "name-dotted":
		// a parameter / header / property NAME (a value, not a key) made of repeated dotted segments
		m, ok := cur.(map[string]interface{})
		if !ok {
			return nil
		}
		if _, has := m["name"].(string); !has {
			return nil
		}
		m["name"] = []string{"a.a", "user.user", "x.y.y"}[len(m)%3]
	case "ref-xsibling":
		// a vendor-extension-like sibling next to an existing reference (a JSON reference admits no sibling at all)
		m, ok := cur.(map[string]interface{})
		if !ok {
			return nil
		}
		if _, has := m["$ref"]; !has {
			return nil
		}
		m["x-note"] = "sibling"
	case "transplant":
		set(clone(get(d, e.From)))
	case "dup-into-array":
		a, ok := parent.([]interface{})
		if !ok {
			return nil
		}
		na := append(append([]interface{}{}, a...), clone(cur))
		if len(e.At) < 2 {
			return nil
		}
		switch g := get(d, e.At[:len(e.At)-2]).(type) {
		case map[string]interface{}:
			g[e.At[len(e.At)-2].(string)] = na
		case []interface{}:
			g[e.At[len(e.At)-2].(int)] = na
		}
	}
	return d
}

// AllEdits enumerates every single edit of a document (transplants: one seeded source per target).
func AllEdits(doc interface{}, r *rand.Rand) []Edit {
	ps := Pointers(doc)
	var out []Edit
	for _, p := range ps {
		for _, k := range EditKinds {
			e := Edit{Kind: k, At: p}
			if k == "transplant" {
				e.From = ps[r.Intn(len(ps))]
			}
			out = append(out, e)
		}
	}
	return out
}
