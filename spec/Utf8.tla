-------------------------------- MODULE Utf8 --------------------------------
(***************************************************************************)
(* UTF-8 decoding of a byte sequence, as Go's utf8.RuneCountInString counts: *)
(* every well-formed encoding is one rune; every byte that does not start a *)
(* well-formed encoding (stray continuation byte, over-long form, surrogate,*)
(* truncated sequence, 0xF5..0xFF) counts as one rune on its own.           *)
(***************************************************************************)
EXTENDS Integers, Sequences
Cont(b) == b >= 128 /\ b <= 191
In(b, lo, hi) == b >= lo /\ b <= hi
\* width of the well-formed encoding starting at position i of q, or 1 (invalid byte / ASCII)
Width(q, i) ==
  LET b0 == q[i]  n == Len(q)
      b1 == IF i + 1 <= n THEN q[i+1] ELSE 0
      b2 == IF i + 2 <= n THEN q[i+2] ELSE 0
      b3 == IF i + 3 <= n THEN q[i+3] ELSE 0
  IN IF b0 < 128 THEN 1
     ELSE IF In(b0, 194, 223) /\ Cont(b1) THEN 2
     ELSE IF b0 = 224 /\ In(b1, 160, 191) /\ Cont(b2) THEN 3
     ELSE IF (In(b0, 225, 236) \/ In(b0, 238, 239)) /\ Cont(b1) /\ Cont(b2) THEN 3
     ELSE IF b0 = 237 /\ In(b1, 128, 159) /\ Cont(b2) THEN 3
     ELSE IF b0 = 240 /\ In(b1, 144, 191) /\ Cont(b2) /\ Cont(b3) THEN 4
     ELSE IF In(b0, 241, 243) /\ Cont(b1) /\ Cont(b2) /\ Cont(b3) THEN 4
     ELSE IF b0 = 244 /\ In(b1, 128, 143) /\ Cont(b2) /\ Cont(b3) THEN 4
     ELSE 1
RECURSIVE CountFrom(_, _)
CountFrom(q, i) == IF i > Len(q) THEN 0 ELSE 1 + CountFrom(q, i + Width(q, i))
RuneCount(q) == CountFrom(q, 1)
=============================================================================
