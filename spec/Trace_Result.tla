---------------------------- MODULE Trace_Result ----------------------------
(***************************************************************************)
(* Trace validation for validate.Result (code -> spec): every recorded      *)
(* operation, applied to the specification's current state by the SAME      *)
(* operators Result.tla's actions use, must yield exactly the recorded      *)
(* projection of every live result (messages in order, match count, all     *)
(* queries).  A mismatch is recorded and the monitor resynchronises on the  *)
(* recorded state, so that the rest of the trace is still examined.         *)
(* "Reset" events separate independent sequences.                           *)
(***************************************************************************)
EXTENDS Json, TLC, Result
Trace == ndJsonDeserialize("events.ndjson")
VARIABLES l, fails
tvars == <<vars, l, fails>>

Rec(e) == [errs |-> e.errs, warns |-> e.warns, mc |-> e.mc, pooled |-> FALSE]

\* the specification's successor state for a recorded operation
Apply(R, o) ==
  CASE o.name = "New"         -> [R EXCEPT ![o.r] = [Empty EXCEPT !.pooled = o.pooled]]
    [] o.name = "AddErrors"   -> OpAddErrors(R, o.r, o.ms)
    [] o.name = "AddWarnings" -> OpAddWarnings(R, o.r, o.ms)
    [] o.name = "Inc"         -> OpInc(R, o.r)
    [] o.name \in {"Merge", "MergeAsErrors", "MergeAsWarnings"} -> MergeAll(R, o.r, o.os, o.name)
    [] OTHER -> R

TraceInit == Init /\ l = 1 /\ fails = {}

Diff(k, ev, want, rid) ==
  LET got == ev.state[rid] IN
  IF /\ want.errs = got.errs /\ want.warns = got.warns /\ want.mc = got.mc /\ Queries(want) = got.q
  THEN {} ELSE {[l |-> k, clause |-> "projection", rid |-> rid, dev |-> "",
                 want |-> ToString([errs |-> want.errs, warns |-> want.warns, mc |-> want.mc, q |-> Queries(want)]), got |-> ToString(got)]}

TraceNext ==
  /\ l <= Len(Trace)
  /\ l' = l + 1
  /\ LET ev == Trace[l] IN
     IF ev.op.name = "Reset"
     THEN /\ res' = [r \in RIds |-> Empty] /\ alive' = RIds /\ op' = [name |-> "Reset"] /\ UNCHANGED fails
     ELSE LET R1 == Apply(res, ev.op)
              al == {ev.alive[j] : j \in 1..Len(ev.alive)}
              \* the enabling condition of the spec action: receiver alive (or New), operands legal
              legal == \/ ev.op.name = "New"
                       \/ ev.op.r \in alive /\ (ev.op.name \in {"Merge", "MergeAsErrors", "MergeAsWarnings"} => LegalOperands(ev.op.r, ev.op.os))
              expAlive == IF ev.op.name = "New" THEN alive \cup {ev.op.r}
                          ELSE IF ev.op.name \in {"Merge", "MergeAsErrors", "MergeAsWarnings"} THEN alive \ Consumed(res, ev.op.os) ELSE alive
          IN /\ fails' = fails
                  \cup (IF legal THEN {} ELSE {[l |-> l, clause |-> "not-enabled", rid |-> ev.op.r, dev |-> "", want |-> "enabled", got |-> ev.op.name]})
                  \cup (IF al = expAlive THEN {} ELSE {[l |-> l, clause |-> "alive-set", rid |-> ev.op.r, dev |-> "", want |-> ToString(expAlive), got |-> ToString(al)]})
                  \cup UNION {Diff(l, ev, R1[rid], rid) : rid \in al \cap expAlive}
                  \* the module invariant NoDupMsgs, evaluated on the RECORDED state of every live result
                  \cup {[l |-> l, clause |-> "NoDupMsgs", rid |-> rid, dev |-> "", want |-> "no duplicate, no nil", got |-> ToString(ev.state[rid])] :
                          rid \in {x \in al : LET e == ev.state[x] IN ~NoDupSeq(e.errs) \/ ~NoDupSeq(e.warns) \/ InSeq(Nil, e.errs) \/ InSeq(Nil, e.warns)}}
                  \cup (IF ev.nilq = NilQueries THEN {} ELSE {[l |-> l, clause |-> "nil-queries", rid |-> "nil", dev |-> "", want |-> ToString(NilQueries), got |-> ToString(ev.nilq)]})
             \* resynchronise on the recorded state (keeping the spec's pooled flags)
             /\ res' = [r \in RIds |-> IF r \in al THEN [Rec(ev.state[r]) EXCEPT !.pooled = R1[r].pooled] ELSE R1[r]]
             /\ alive' = al
             /\ op' = [name |-> ev.op.name]
TraceSpec == TraceInit /\ [][TraceNext]_tvars

RECURSIVE SetToSeq(_)
SetToSeq(S) == IF S = {} THEN <<>> ELSE LET x == CHOOSE x \in S : TRUE IN <<x>> \o SetToSeq(S \ {x})
Done == l = Len(Trace) + 1 =>
          /\ ndJsonSerialize("fails.ndjson", SetToSeq(fails))
          /\ PrintT(<<"TRACE-DONE", Len(Trace), Cardinality(fails)>>)
=============================================================================
