package hook

import (
	"bytes"
	"runtime"
	"strconv"
	"sync"
	"time"
)

// Goid returns the id of the calling goroutine (parsed from its stack header).
func Goid() int64 {
	var buf [64]byte
	n := runtime.Stack(buf[:], false)
	b := bytes.TrimPrefix(buf[:n], []byte("goroutine "))
	i := bytes.IndexByte(b, ' ')
	id, _ := strconv.ParseInt(string(b[:i]), 10, 64)
	return id
}

// GateEvent is what a scheduled worker reports: it parked at a gate, or its call returned.
type GateEvent struct {
	Parked   string // gate name, "" when returned
	Returned bool
	Result   interface{} // the call's result when Returned
}

// Worker is one real goroutine driven step by step through the verifGate hooks.
type Worker struct {
	Events  chan GateEvent
	release chan struct{}
	free    bool // gates no longer park this worker
}

// GateSched parks registered goroutines at every gate until the scheduler releases them.
type GateSched struct {
	mu      sync.Mutex
	workers map[int64]*Worker
}

func NewGateSched() *GateSched { return &GateSched{workers: map[int64]*Worker{}} }

// Gate is the function to install as validate.VerifOnGate.
func (s *GateSched) Gate(point string) {
	s.mu.Lock()
	w := s.workers[Goid()]
	s.mu.Unlock()
	if w == nil {
		return
	}
	s.mu.Lock()
	free := w.free
	s.mu.Unlock()
	if free {
		return
	}
	w.Events <- GateEvent{Parked: point}
	<-w.release
}

// Start runs call on a new registered goroutine; its gates park until released.
func (s *GateSched) Start(call func() interface{}) *Worker {
	w := &Worker{Events: make(chan GateEvent, 4), release: make(chan struct{}, 1)}
	ready := make(chan struct{})
	go func() {
		id := Goid()
		s.mu.Lock()
		s.workers[id] = w
		s.mu.Unlock()
		close(ready)
		res := call()
		s.mu.Lock()
		delete(s.workers, id)
		s.mu.Unlock()
		w.Events <- GateEvent{Returned: true, Result: res}
	}()
	<-ready
	return w
}

// Release lets a parked worker run to its next gate (or to its return).
func (w *Worker) Release() { w.release <- struct{}{} }

// Wait returns the worker's next event, or ok = false after the timeout.
func (w *Worker) Wait(d time.Duration) (GateEvent, bool) {
	select {
	case e := <-w.Events:
		return e, true
	case <-time.After(d):
		return GateEvent{}, false
	}
}

// Free makes every later gate of the worker a no-op and releases it if parked (used to drain a schedule
// that can no longer be followed).
func (s *GateSched) Free(w *Worker) {
	s.mu.Lock()
	w.free = true
	s.mu.Unlock()
	select {
	case w.release <- struct{}{}:
	default:
	}
}
