------------------------------ MODULE Visited ------------------------------
(* default_validator.go / example_validator.go: the walk over definitions   *)
(* with the "already visited" bookkeeping, incl. the suffix-overlap          *)
(* heuristic of isVisited transcribed character by character.  The model    *)
(* enumerates every definition tree of depth <= 2 over the name alphabet    *)
(* {a, b, a.a} (one initial state per tree) and checks, at design level,    *)
(*   EveryCarrierVisited: every schema carrying a default / example on the  *)
(*       walk is judged (C09);                                              *)
(*   NoNilResult: isVisited never answers "visited" for a path that was     *)
(*       not visited, i.e. callers never receive a nil result (C07).        *)
(* Both are KNOWN not to hold (KNOWN-FINDINGS: VisitedSuffixSkip): TLC's     *)
(* counterexample (definition b, property b) is the design-level witness.   *)
EXTENDS Integers, Sequences, FiniteSets, TLC
Chars(s) == s   \* names are given as sequences of 1-character strings
A == <<"a">>  B == <<"b">>  AA == <<"a", ".", "a">>
Names == {A, B, AA}
Dot == <<".">>
Prefix == <<"d", "e", "f", "s", ".">>     \* stands for "definitions."

HasSuffix(s, suf) == Len(suf) <= Len(s) /\ SubSeq(s, Len(s) - Len(suf) + 1, Len(s)) = suf
\* isVisited(path, visitedSchemas), transcribed from default_validator.go:46-73
IsVisited(path, V) ==
  \/ path \in V
  \/ \E i \in 1..(Len(path) - 1) : /\ path[i] = "."
                                    /\ HasSuffix(SubSeq(path, 1, i - 1), SubSeq(path, i + 1, Len(path)))

\* schema trees: [d |-> carries a default, kids |-> sequence of <<propertyName, subtree>>]
Leafs == {[d |-> b, kids |-> <<>>] : b \in BOOLEAN}
Mid == Leafs \cup {[d |-> b, kids |-> <<<<n, t>>>>] : b \in BOOLEAN, n \in Names, t \in Leafs}
Top == Mid \cup {[d |-> b, kids |-> <<<<n, t>>>>] : b \in BOOLEAN, n \in Names, t \in Mid}

RECURSIVE Walk(_, _, _)
\* returns [V |-> visited set, ok |-> paths whose default was validated, nil |-> paths answered with a nil result]
Walk(path, node, acc) ==
  IF IsVisited(path, acc.V) THEN [acc EXCEPT !.nil = @ \cup {path}]
  ELSE LET a1 == [acc EXCEPT !.V = @ \cup {path}, !.ok = IF node.d THEN @ \cup {path} ELSE @] IN
       IF Len(node.kids) = 0 THEN a1
       ELSE Walk(path \o Dot \o node.kids[1][1], node.kids[1][2], a1)

RECURSIVE Carriers(_, _)
Carriers(path, node) ==
  (IF node.d THEN {path} ELSE {}) \cup
  (IF Len(node.kids) = 0 THEN {} ELSE Carriers(path \o Dot \o node.kids[1][1], node.kids[1][2]))

VARIABLES defName, tree
Init == defName \in Names /\ tree \in Top
Next == UNCHANGED <<defName, tree>>
Spec == Init /\ [][Next]_<<defName, tree>>
Result == Walk(Prefix \o defName, tree, [V |-> {}, ok |-> {}, nil |-> {}])
EveryCarrierVisited == Carriers(Prefix \o defName, tree) \subseteq Result.ok
NoNilResult == Result.nil = {}
=============================================================================
