"""C03 - spec validation enforces exactly the documented extra rules."""
import json, os
from . import common, schemafam
from .common import Inconclusive


def run(tier, seed):
    check = common.Check("C03", tier, seed, "model_checking")
    vh = common.build_vh()
    quick = tier == "quick"
    known = common.Known().devs("C03")
    live = {}
    if "KeywordNamedMember" in known:
        wd = common.workdir("C03-witness")
        common.run([vh, "drive-rules", "-keyword-witness", "-out", wd])
        r, fails = schemafam.eval_chunk(schemafam.chunks(wd)[0], "Trace_Rules", ["KeywordNamedMember"])
        check.add_tlc(r)
        if any(f["dev"] == "KeywordNamedMember" for f in fails):
            live["KeywordNamedMember"] = known["KeywordNamedMember"]
            check.known("KeywordNamedMember", known["KeywordNamedMember"]["text"])
    base = common.workdir("C03-rules")
    shards = 8 if quick else 14
    n = 26 if quick else 1500

    def shard(k):
        wdk = os.path.join(base, "shard%d" % k)
        common.run([vh, "drive-rules", "-seed", str(seed), "-n", str(n), "-shard", "%d/%d" % (k, shards), "-out", wdk], timeout=4 * 3600)
        meta = json.load(open(os.path.join(wdk, "meta.json")))
        out = []
        for c in schemafam.chunks(wdk):
            rr, fails = schemafam.eval_chunk(c, "Trace_Rules", sorted(live))
            check.add_tlc(rr)
            out += fails
        return meta, out
    allfails, edits = [], {}
    for meta, fails in common.parallel(shard, list(range(shards)), jobs=shards):
        check.coverage["evaluations"] += meta["runs"]
        check.coverage["distinct_nontrivial"] += meta["distinct_nontrivial"]
        check.coverage["traces_validated_against_impl"] += meta["events"]
        check.coverage["samples"] += (meta["samples"] or [])[:1]
        for e, c in (meta.get("edits") or {}).items():
            edits[e] = edits.get(e, 0) + c
        allfails += fails
    check.coverage["edits_exercised"] = edits

    def adapt(f):
        f["input"] = dict(f["input"], inst=None)
        return f
    seen = set()
    for f in allfails:
        dev = f.get("dev", "")
        if dev and dev in live:
            check.known(dev, live[dev]["text"])
            continue
        key = (f["clause"], tuple(f["input"].get("edits") or []))
        if key in seen:
            continue
        seen.add(key)
        check.violation(dict(family="rules", clause=f["clause"], input=f["input"]), "%s [edits: %s; strict=%s continue=%s] errors: %s" % (
            f["clause"], f["input"].get("edits"), f["input"].get("strict"), f["input"].get("continueOnErrors"), f["input"].get("errors")))
    check.coverage["rule"] = ("abstract documents assembled from well-formed parts (paths with plain and mixed-segment templates, path- and operation-level parameters of every location, shared parameters, "
                              "responses with headers, definitions with additionalProperties variants and allOf inheritance), each unedited, with one of %d rule-breaking / rule-preserving edits (rotating so "
                              "that every edit is exercised) and with random double edits; rendered to Swagger JSON and validated with continue-on-errors x StrictPathParamUniqueness. TLC evaluates "
                              "SwaggerRules!Broken on the abstract document: errors are expected exactly when some documented rule is broken. distinct = distinct rendered documents." % 37)
    check.coverage["open_deviations_honoured"] = sorted(live)
    check.assumptions = ["the renderer (abstract document -> Swagger JSON) is trusted; unedited generated documents must validate without error (checked on every run)", "only the verdict (errors or not) is compared"]
    return check.finish()
